#!/usr/bin/env python3
"""tools/seedeval.py <Cxx> <n> [--all] [--tier quick]

Confirms a seeded change produced by an independent sub-agent (in /tmp/seed/<Cxx>-out/) and runs
the checks against it:
  1. in a scratch worktree of /repo (outside /repo and /verif): the demonstration passes on the
     unchanged tree; the patch applies; the repository's own suite still passes; the
     demonstration fails with the patch;
  2. the patch is applied to /repo (git apply), the target property's check (and with --all every
     check) is run, and the patch is undone (git checkout) straight afterwards;
  3. /verif/seeded/<Cxx>-<n>/ receives patch.diff, the demonstration and meta.json.
"""
import json, os, re, shutil, subprocess, sys, tempfile, time

ENV = dict(os.environ, GOFLAGS="-mod=mod", GOPROXY="off", GOSUMDB="off", GOTOOLCHAIN="local")
ALL = ["C%02d" % i for i in range(1, 21)]


def sh(cmd, cwd=None, timeout=3600):
    p = subprocess.run(cmd, shell=True, cwd=cwd, env=ENV, stdout=subprocess.PIPE, stderr=subprocess.STDOUT, text=True, errors='replace', timeout=timeout)
    return p.returncode, p.stdout


def main():
    pid, n = sys.argv[1], sys.argv[2]
    run_all = "--all" in sys.argv
    tier = "quick"
    if "--tier" in sys.argv:
        tier = sys.argv[sys.argv.index("--tier") + 1]
    base = "/tmp/seed"
    if "--src" in sys.argv:
        base = sys.argv[sys.argv.index("--src") + 1]
    src = "%s/%s-out" % (base, pid)
    store_n = n
    if "--as" in sys.argv:
        store_n = sys.argv[sys.argv.index("--as") + 1]
    patch = os.path.join(src, "patch%s.diff" % n)
    demo = os.path.join(src, "demo%s_test.go" % n)
    if not (os.path.exists(patch) and os.path.exists(demo)):
        print("missing deliverables for", pid, n)
        return 2
    test_name = "TestSeed%sDemo%s" % (pid, n)
    ran = []
    rc, out = sh("git -C /repo status --porcelain")
    if out.strip():
        print("REFUSING: /repo is not clean")
        return 2
    # 1. confirm in a scratch worktree
    wt = tempfile.mkdtemp(prefix="seedverify-")
    os.rmdir(wt)
    sh("git -C /repo worktree add -q --detach %s HEAD" % wt)
    verdict = {}
    try:
        shutil.copy(demo, os.path.join(wt, "zz_seed_demo_test.go"))
        rc, out = sh("go test -vet=off -count=1 -run '^%s$' ./..." % test_name, cwd=wt)
        verdict["demo_passes_without_patch"] = rc == 0 and "no tests to run" not in out
        ran.append("unchanged tree: go test -run %s -> rc=%d" % (test_name, rc))
        os.remove(os.path.join(wt, "zz_seed_demo_test.go"))
        rc, out = sh("git apply --whitespace=nowarn %s" % patch, cwd=wt)
        verdict["patch_applies"] = rc == 0
        rc, out = sh("go build ./... && go test -vet=off -count=1 ./...", cwd=wt)
        verdict["suite_passes_with_patch"] = rc == 0
        ran.append("patched tree: go test -vet=off -count=1 ./... -> rc=%d" % rc)
        shutil.copy(demo, os.path.join(wt, "zz_seed_demo_test.go"))
        ok_fail = False
        for extra in ["", "-race"]:
            rc, out = sh("go test -vet=off -count=1 %s -run '^%s$' ./..." % (extra, test_name), cwd=wt)
            ran.append("patched tree: go test %s -run %s -> rc=%d" % (extra, test_name, rc))
            if rc != 0:
                ok_fail = True
                verdict["demo_needs_race_flag"] = extra == "-race"
                break
        verdict["demo_fails_with_patch"] = ok_fail
    finally:
        sh("git -C /repo worktree remove --force %s" % wt)
        shutil.rmtree(wt, ignore_errors=True)
    confirmed = all(verdict.get(k) for k in ["demo_passes_without_patch", "patch_applies", "suite_passes_with_patch", "demo_fails_with_patch"])
    print(pid, n, "confirmed" if confirmed else "NOT CONFIRMED", verdict)
    results = {}
    if confirmed:
        # 2. run the checks against /repo with the patch applied
        rc, out = sh("git -C /repo apply --whitespace=nowarn %s" % patch)
        try:
            ids = [pid] + ([c for c in ALL if c != pid] if run_all else [])
            for cid in ids:
                t0 = time.time()
                rc, out = sh("VERIF_OUT=/tmp/seedout ./check %s %s" % (cid, tier), cwd="/verif", timeout=7200)
                lines = [l for l in out.splitlines() if l.startswith("VIOLATION")]
                first = ""
                m = re.search(r"^VIOLATION.*\n  (.*)$", out, re.M)
                if m:
                    first = m.group(1)[:300]
                results[cid] = {"rc": rc, "violation_lines": len(lines), "first": first, "wall_s": round(time.time() - t0, 1)}
                ran.append("git -C /repo apply patch; ./check %s %s -> rc=%d, %d VIOLATION line(s)" % (cid, tier, rc, len(lines)))
                print("  check", cid, "rc=%d" % rc, "violations=%d" % len(lines), first[:160])
        finally:
            sh("git -C /repo checkout -- . && git -C /repo clean -fdq")
    # 3. record
    dst = "/verif/seeded/%s-%s" % (pid, store_n)
    os.makedirs(dst, exist_ok=True)
    shutil.copy(patch, os.path.join(dst, "patch.diff"))
    shutil.copy(demo, os.path.join(dst, "demo_test.go"))
    notes = ""
    if os.path.exists(os.path.join(src, "NOTES.md")):
        notes = open(os.path.join(src, "NOTES.md")).read()
    meta_path = os.path.join(dst, "meta.json")
    meta = {}
    if os.path.exists(meta_path):
        meta = json.load(open(meta_path))
    meta.update({
        "breaks_property": pid,
        "origin": "independent sub-agent given only the property text and a scratch worktree",
        "confirmed": confirmed,
        "confirmation": verdict,
        "demonstration_test": test_name,
        "what_it_needs_to_manifest": meta.get("summary", meta.get("what_it_needs_to_manifest", "see agent_notes")),
        "agent_notes": notes[:6000],
        "what_i_ran": ran,
    })
    cr = meta.get("check_results", {})
    cr.update(results)
    meta["check_results"] = cr
    meta["caught_by"] = sorted(c for c, r in cr.items() if r["rc"] == 1)
    json.dump(meta, open(meta_path, "w"), indent=1)
    return 0


sys.exit(main())
