#!/bin/bash
# tools/seedmatrix.sh [seed-dir...]   run every check (quick) against every seeded change, each in its
# own scratch worktree of /repo (VERIF_REPO), and write out/matrix/<seed>.txt with one line per check.
# Meant for background runs (vp run); the registered commands are not involved.
set -u
cd "$(dirname "$0")/.."
export VERIF_DIR=$PWD VERIF_OUT=$PWD/out
mkdir -p out/matrix
seeds=("$@"); if [ ${#seeds[@]} -eq 0 ]; then seeds=(seeded/C*); fi
for d in "${seeds[@]}"; do
  name=$(basename "$d")
  wt=$(mktemp -d /tmp/seedwt.XXXXXX); rmdir "$wt"
  git -C /repo worktree add -q --detach "$wt" HEAD || continue
  if ! git -C "$wt" apply --whitespace=nowarn "$PWD/$d/patch.diff"; then echo "$name PATCH-FAILS" > out/matrix/$name.txt; git -C /repo worktree remove --force "$wt"; continue; fi
  : > out/matrix/$name.txt
  for c in C01 C02 C03 C04 C05 C06 C07 C08 C09 C10 C11 C12 C13 C14 C15 C16 C17 C18 C19 C20; do
    out=$(VERIF_REPO="$wt" ./check $c quick 2>&1); rc=$?
    first=$(echo "$out" | grep -A1 '^VIOLATION' | sed -n 2p | cut -c1-200)
    echo "$c rc=$rc violations=$(echo "$out" | grep -c '^VIOLATION') $first" >> out/matrix/$name.txt
  done
  git -C /repo worktree remove --force "$wt"; rm -rf "$wt"
  echo "done $name: $(grep -c 'rc=1' out/matrix/$name.txt) checks caught it"
done
