#!/bin/bash
# tools/refresh.sh [tier]  : run every registered check on /repo's current tree (default: quick), so that
# evidence/*.json is rewritten by the current machinery, then regenerate MANIFEST.json and the DESIGN tables.
cd "$(dirname "$0")/.."
tier=${1:-quick}
fail=0
for c in C01 C02 C03 C04 C05 C06 C07 C08 C09 C10 C11 C12 C13 C14 C15 C16 C17 C18 C19 C20; do
  out=$(./check $c $tier 2>&1); rc=$?
  echo "$out" | tail -1
  if [ $rc -ne 0 ]; then echo "  !! $c exited $rc"; echo "$out" | grep -E '^(VIOLATION|INTERNAL|NOTE|BUILD)' | head -5; fail=1; fi
done
python3 tools/mkmanifest.py
python3 tools/mkmatrix.py
exit $fail
