#!/bin/bash
# tools/seedtarget.sh [--check Cyy] seed-dir...  : apply each already-confirmed seeded change to /repo (git apply), run
# its target property's check (quick), undo the change straight afterwards (git checkout), and record the
# result in the seed's meta.json. Evidence and replay files of these runs go to /tmp/seedout.
cd /verif
override=""
if [ "$1" = "--check" ]; then override=$2; shift 2; fi
for d in "$@"; do
  d=$(readlink -f "$d"); name=$(basename "$d"); id=${name%-*}
  if [ -n "$override" ]; then id=$override; fi
  if [ -n "$(git -C /repo status --porcelain)" ]; then echo "REFUSING: /repo not clean"; exit 2; fi
  git -C /repo apply --whitespace=nowarn "$d/patch.diff" || { echo "$name PATCH-FAILS"; continue; }
  t0=$(date +%s)
  out=$(VERIF_OUT=/tmp/seedout ./check $id quick 2>&1); rc=$?
  git -C /repo checkout -- . ; git -C /repo clean -fdq
  first=$(echo "$out" | grep -A1 '^VIOLATION' | sed -n 2p | cut -c1-300)
  nv=$(echo "$out" | grep -c '^VIOLATION')
  python3 - "$d/meta.json" "$id" "$rc" "$nv" "$first" "$(( $(date +%s) - t0 ))" <<'PY'
import json,sys
p,cid,rc,nv,first,wall=sys.argv[1:7]
m=json.load(open(p)); cr=m.setdefault("check_results",{})
cr[cid]={"rc":int(rc),"violation_lines":int(nv),"first":first,"wall_s":int(wall)}
m["caught_by"]=sorted(c for c,r in cr.items() if r["rc"]==1)
m.setdefault("what_i_ran",[]).append("git -C /repo apply patch.diff; ./check %s quick -> rc=%s, %s VIOLATION line(s); git -C /repo checkout -- ."%(cid,rc,nv))
json.dump(m,open(p,"w"),indent=1)
PY
  echo "$name target=$id rc=$rc violations=$nv $(echo $first | cut -c1-120)"
done
