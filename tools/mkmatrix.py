#!/usr/bin/env python3
"""Fills the two generated tables of DESIGN.md §0A.5 / §0A.6 from evidence/*.json and seeded/*/meta.json."""
import glob, json, os, re
HERE = os.path.dirname(os.path.dirname(os.path.abspath(__file__)))

def cov_table():
    rows = ["| id | level | units | executions / evaluations | distinct non-trivial | distinct outcomes | exhaustive | wall s |", "|---|---|---|---|---|---|---|---|"]
    for f in sorted(glob.glob(os.path.join(HERE, "evidence", "C*.json"))):
        e = json.load(open(f)); c = e["coverage"]
        rows.append("| %s | %s | %s | %s | %s | %s | %s | %.0f |" % (e["property_id"], e["level"], c.get("units", ""), f"{c.get('evaluations',0):,}", f"{c.get('distinct_nontrivial',0):,}", c.get("distinct_outcomes", ""), c.get("exhaustive"), e["wall_s"]))
    return "\n".join(rows)

def seed_table():
    rows = ["| seeded change | what it needs to manifest (agent's summary) | suite | target check | caught by |", "|---|---|---|---|---|"]
    for d in sorted(glob.glob(os.path.join(HERE, "seeded", "C*"))):
        mp = os.path.join(d, "meta.json")
        if not os.path.exists(mp):
            continue
        m = json.load(open(mp))
        name = os.path.basename(d)
        summ = m.get("summary", "")
        caught = m.get("caught_by", [])
        tgt = m["breaks_property"]
        tres = m.get("check_results", {}).get(tgt, {})
        rows.append("| %s | %s | passes | %s | %s |" % (name, summ.replace("|", "\\|"), "caught" if tres.get("rc") == 1 else "missed", ", ".join(caught) if caught else "—"))
    return "\n".join(rows)

p = os.path.join(HERE, "DESIGN.md")
s = open(p).read()
s = re.sub(r"<!-- COVERAGE-TABLE-BEGIN -->.*?<!-- COVERAGE-TABLE-END -->", lambda m: "<!-- COVERAGE-TABLE-BEGIN -->\n" + cov_table() + "\n<!-- COVERAGE-TABLE-END -->", s, flags=re.S)
s = re.sub(r"<!-- SEED-TABLE-BEGIN -->.*?<!-- SEED-TABLE-END -->", lambda m: "<!-- SEED-TABLE-BEGIN -->\n" + seed_table() + "\n<!-- SEED-TABLE-END -->", s, flags=re.S)
open(p, "w").write(s)
print("tables updated")
