#!/bin/bash
# tools/mutant.sh <patch.diff> <tier> <check-id>...   apply a patch to /repo, run the repository's own
# suite and the named checks, then undo the patch. Prints one line per step.
set -u
patch=$(readlink -f "$1"); tier=$2; shift 2
cd /repo
if [ -n "$(git status --porcelain)" ]; then echo "REFUSING: /repo has uncommitted changes"; exit 2; fi
if ! git apply --whitespace=nowarn "$patch"; then echo "PATCH-DOES-NOT-APPLY $patch"; exit 2; fi
trap 'git -C /repo checkout -- . ; git -C /repo clean -fdq' EXIT
export GOFLAGS=-mod=mod GOPROXY=off GOSUMDB=off GOTOOLCHAIN=local
if go build ./... 2>/tmp/mutant-build.log; then echo "BUILD ok"; else echo "BUILD FAILED"; head -5 /tmp/mutant-build.log; exit 2; fi
if go test -vet=off -count=1 ./... >/tmp/mutant-suite.log 2>&1; then echo "SUITE passes"; else echo "SUITE FAILS (mutant is caught by the repository's own tests)"; tail -5 /tmp/mutant-suite.log; fi
cd /verif
for id in "$@"; do
  out=$(VERIF_OUT=${VERIF_OUT:-/tmp/seedout} ./check "$id" "$tier" 2>&1); rc=$?
  echo "CHECK $id rc=$rc $(echo "$out" | grep -c '^VIOLATION') violation line(s)"
  echo "$out" | grep -A1 '^VIOLATION' | head -4 | cut -c1-260
  echo "$out" | grep -E '^(INTERNAL|NOTE|BUILD-FAILED)' | head -3 | cut -c1-260
done
