#!/usr/bin/env python3
"""Regenerates /verif/MANIFEST.json from the table below (kept next to the code so that the
manifest stays valid while checks are being added)."""
import json, os, subprocess
HERE = os.path.dirname(os.path.dirname(os.path.abspath(__file__)))
ALL = ["C%02d" % i for i in range(1, 21)]

# id -> (engine, category, technique, text, note, design_ref)
CHECKS = {
 "C01": ("E-ENUM", "model_checking", "bounded-exhaustive enumeration of path programs x documents; every trace of an executable reference model replayed against the implementation",
         "Every path of the bounded step-sequence ladders is rendered, parsed by the real Parse and evaluated on every JSON document up to the node bound in both decodings; values, order and multiplicity must equal the reference model's, and the call must fail exactly when the model selects nothing. Coverage is total inside the bound and silent outside it.",
         "Trusted: the reference model h/spec (transcribes DESIGN.md Appendix A), the renderer, Go's reflect/encoding/json. Cases the property statements leave open are skipped and counted.", "DESIGN.md §4 C01"),
 "C03": ("E-ENUM", "model_checking", "bounded-exhaustive enumeration of path programs x documents with an invariant checked on every execution",
         "The same bounded product as C01; on every execution the invariant 'no panic; non-empty result xor nil slice with one of the three documented runtime error types; ErrorFunctionFailed only if a user function failed; never an empty success' is evaluated.",
         "Trusted: the harness's recover wrapper and the recording user functions. Integer-boundary subscripts are covered by C11, non-JSON values by C20.", "DESIGN.md §4 C03"),
 "C15": ("E-ENUM", "model_checking", "bounded-exhaustive enumeration of failing (path, document) pairs against the reference model's candidate set",
         "For every failing pair of the C01 product the reported error (type and full text: step as written, expected kind, found Go type) must be one of the failures the model records at the deepest failing position, a missing member or failed function outranking a type mismatch; for single-valued paths that set is a singleton, so the comparison is exact.",
         "Trusted: the reference model's failure bookkeeping and the renderer's per-step text.", "DESIGN.md §4 C15"),
}

def main():
    checks = []
    for pid in ALL:
        if pid not in CHECKS:
            continue
        eng, cat, tech, text, note, ref = CHECKS[pid]
        checks.append({
            "property_id": pid,
            "quick_cmd": "./check %s quick" % pid,
            "thorough_cmd": "./check %s thorough" % pid,
            "evidence_file": "/verif/evidence/%s.json" % pid,
            "replay_cmd_template": "./check replay {path}",
            "engine": eng,
            "level_claimed": {"category": cat, "text": text, "design_ref": ref},
            "level_note": note,
            "technique": tech,
        })
    na = [{"property_id": p, "reason": "check not built yet in this session (work in progress; see DESIGN.md §10 build order) - not a statement that the technique cannot apply"} for p in ALL if p not in CHECKS]
    m = {
        "version": 1,
        "setup_cmd": "./setup.sh",
        "hooks": {
            "guard": "verif",
            "enable": "no hook code is committed to /repo: checks that need to own pool answers, map iteration order or scheduling generate an instrumented copy of the package from /repo's working tree at run time (h/cmd/vinstr) and compile it with `go build -tags verif -overlay`; the other checks use the public API of the plain build",
            "baseline_off_cmd": "cd /repo && GOFLAGS=-mod=mod GOPROXY=off GOSUMDB=off GOTOOLCHAIN=local go test -vet=off -count=1 ./...",
            "source_commits": [],
            "add_only": True,
        },
        "engines": [
            {"name": "E-ENUM", "path": "/verif/h/checks", "serves_properties": [p for p in ALL if p in CHECKS and CHECKS[p][0] == "E-ENUM"],
             "kind_free_text": "stateless bounded-exhaustive enumeration (programs x inputs x configurations), sharded over isolated single-threaded worker processes by h/run"},
        ],
        "checks": checks,
        "not_applicable": na,
        "notes": "All checks are `./check <id> <tier>`; the harness binary links /repo through a replace directive and is rebuilt from /repo's working tree on every invocation. known_findings.json lists repaired defects (fixed:) and recorded findings.",
    }
    json.dump(m, open(os.path.join(HERE, "MANIFEST.json"), "w"), indent=1)
    print("MANIFEST.json: %d checks, %d not_applicable" % (len(checks), len(na)))

main()
