#!/usr/bin/env python3
"""Regenerates /verif/MANIFEST.json from the table below (kept next to the code so that the
manifest stays valid while checks are being added)."""
import json, os, subprocess
HERE = os.path.dirname(os.path.dirname(os.path.abspath(__file__)))
ALL = ["C%02d" % i for i in range(1, 21)]

# id -> (engine, category, technique, text, note, design_ref)
CHECKS = {
 "C01": ("E-ENUM", "model_checking", "bounded-exhaustive enumeration of path programs x documents; every trace of an executable reference model replayed against the implementation",
         "Every path of the bounded step-sequence ladders (plus every filter atom and pairwise combination under $.c) is rendered, parsed by the real Parse and evaluated on every JSON document up to the node bound, on wide two-level documents (also with shared containers) and on member documents, in both decodings; values, order and multiplicity must equal the reference model's, and the call must fail exactly when the model selects nothing. Coverage is total inside the bound and silent outside it.",
         "Trusted: the reference model h/spec (transcribes DESIGN.md Appendix A), the renderer, Go's reflect/encoding/json. Cases the property statements leave open are skipped and counted.", "DESIGN.md §4 C01"),
 "C03": ("E-ENUM", "model_checking", "bounded-exhaustive enumeration of path programs x documents with an invariant checked on every execution",
         "The same bounded product as C01; on every execution the invariant 'no panic; non-empty result xor nil slice with one of the three documented runtime error types; ErrorFunctionFailed only if a user function failed; never an empty success' is evaluated; paths whose user function calls back into the library are also evaluated through the one-shot Retrieve (a call that never returns is caught by the per-case watchdog).",
         "Trusted: the harness's recover wrapper and the recording user functions. Integer-boundary subscripts are covered by C11, non-JSON values by C20.", "DESIGN.md §4 C03"),
 "C15": ("E-ENUM", "model_checking", "bounded-exhaustive enumeration of failing (path, document) pairs against the reference model's candidate set",
         "For every failing pair of the C01 product the reported error (type and full text: step as written, expected kind, found Go type) must be one of the failures the model records at the deepest failing position, a missing member or failed function outranking a type mismatch; for single-valued paths that set is a singleton, so the comparison is exact.",
         "Trusted: the reference model's failure bookkeeping and the renderer's per-step text.", "DESIGN.md §4 C15"),
 "C11": ("E-ENUM", "model_checking", "complete enumeration of the small slice/index space plus integer-boundary cross product against a big-integer Python-slice model (itself recomputed by python3)",
         "All start/end/step in {omitted} U [-7..7] on lengths 0..6 and every combination of integer-boundary magnitudes are evaluated, alone, inside a union, after recursive descent and nested (every pair of 216 small slices on arrays of arrays); the selected elements must equal Python's slice semantics, no index may fall outside the array, and integers outside the int range must be rejected by Parse with ErrorInvalidArgument. The small space is covered completely, not sampled; arrays of 9..130 elements, bounds spelled -0 / +1 / 01 and unions starting with an index (with emptied pools) extend it.",
         "Trusted: spec.PySlice (cross-checked against the real python3 over the whole table on every run), arrays holding their own indices.", "DESIGN.md §4 C11"),
 "C12": ("E-ENUM", "exploration", "bounded-exhaustive enumeration with a relational oracle between two runs of the implementation (plain vs accessor mode)",
         "Every path of the ladders (functions after every step kind and inside filter operands) is parsed twice, with and without accessor mode, with identical recording function sets, and evaluated on every document of the bound; result count, Get() values, error type/text and the recorded function arguments must coincide, and reading the accessors must not call user functions.",
         "Trusted: the recording wrappers; no reference model is involved.", "DESIGN.md §4 C12"),
 "C13": ("E-ENUM", "model_checking", "bounded-exhaustive enumeration of paths x documents x result index; location oracle from the reference model, structural diff after every Set",
         "For every accessor of every result, after an unrelated accessor-mode retrieval has been made in between: Get() equals the selected value; Set(sentinel) makes exactly the model's (container,key|index) hold the sentinel and leaves the rest of the document equal to an untouched copy; Get() then returns it; an in-place update of the location is seen by Get(); Set is nil exactly for the root and function outputs.",
         "Trusted: the reference model's locations (h/spec), the unique sentinel, the structural equality used for the diff.", "DESIGN.md §4 C13"),
 "C14": ("E-ENUM", "model_checking", "bounded-exhaustive enumeration of function sequences after every step-kind prefix and inside filter operands; recorded call logs compared per occurrence with the reference model",
         "Every navigation prefix of the bound is followed by every sequence of 1..3 functions out of {f, id, e, g, cnt, eg}, each occurrence under its own alias; values, errors (deepest failing step, ErrorFunctionFailed naming a failed function) and the per-occurrence call log (argument, order, count) must equal the model's.",
         "Trusted: the reference model's function protocol (Appendix A.2), the recording wrappers. Relative order of calls of different occurrences is not compared.", "DESIGN.md §4 C14"),
 "C20": ("E-ENUM", "model_checking", "bounded-exhaustive enumeration of documents with one or two leaves replaced by each of 24 non-JSON Go values x all short paths, against the reference model",
         "Every short path (all comparison atoms, functions) is evaluated on every small document in which one leaf (or the root, or two leaves) is replaced by one of 28 non-JSON values (typed maps / slices / scalars, structs, pointers, typed nils, functions, channels, NaN, +Inf, odd json.Numbers); the model treats such a value as an opaque scalar, so values, failure and the ErrorTypeUnmatched text naming the Go type must agree, and nothing may panic.",
         "Trusted: the reference model (no special case for non-JSON values), identity comparison for reference kinds.", "DESIGN.md §4 C20"),
 "C04": ("E-ENUM", "exploration", "bounded-exhaustive enumeration of filter-heavy paths x documents x {plain, accessor}; invariant (deep snapshot before = after) checked on every execution",
         "Every atom, every pairwise && / || combination and depth-3 shape of the filter alphabet is placed as a filter in 8 positions, plus all short paths of every step kind; after every call, successful or not, in plain and accessor mode and in both decodings, the caller's document - and the document of the previous call, to catch recycled buffers that alias caller memory - is compared structurally with an untouched copy; every array of the working documents has spare capacity that must stay untouched, and every user function the retrieval calls compares the document with the copy at that moment.",
         "Trusted: the structural comparison; a difference is confirmed on a fresh document and fresh Parse before it is reported. The shared-between-goroutines clause is C06's (shared-document race pass).", "DESIGN.md §4 C04"),
 "C08": ("E-ENUM", "exploration", "bounded-exhaustive enumeration of every decomposition of every path, with a relational oracle over three or more retrievals of the implementation",
         "For every path of the bound and every split point, every recursive-descent step and every union / multi-name selector, the whole path must return exactly the concatenation, in order, of the continuation applied to each value (or each container in pre-order) selected by the prefix, and fail exactly when that concatenation is empty.",
         "Trusted: the harness's pre-order container listing; no reference model. Continuations with a $-rooted operand or an aggregate function are excluded as the property states.", "DESIGN.md §4 C08"),
 "C09": ("E-ENUM", "exploration", "bounded-exhaustive enumeration of filter expressions x containers x root values with relational (set-algebra and duality) oracles between runs of the implementation",
         "All comparison, existence and regex atoms, their pairwise && / || combinations and depth-3 shapes are evaluated on arrays and objects of 0..6 pairwise-distinct members that hit, miss or mistype the operand paths; selections are read back as position sets and must satisfy intersection, union, complement (!path, !=), mirrored-operand, <=/>= = strict ∪ ==, and parenthesis laws, in container order.",
         "Trusted: reading a result back as positions (members are pairwise distinct by construction); no reference model.", "DESIGN.md §4 C09"),
 "C10": ("E-ENUM", "model_checking", "complete enumeration of comparison atoms x operand values of every JSON type x decodings against the model's type-strict table, plus float64-vs-json.Number relational oracle",
         "Every atom is applied to members whose @.a/@.b and root $.a/$.b take every value of the type alphabet (absent, numbers in several spellings, strings, booleans, null, object, array); the selection must equal the type-strict model in both decodings, and the json.Number decoding of the same JSON text must select the same members as the float64 decoding. String literals (chunk alphabet with quotes, backslashes, non-ASCII; both quote styles; plain and anchored regular expressions) and 15 unusual spellings of a number literal are covered in the same way.",
         "Trusted: the reference model's comparison table (Appendix A.3); non-shortest number spellings are excluded only where two paths are compared with == / != (as the property allows).", "DESIGN.md §4 C10"),
 "C16": ("E-ENUM", "exploration", "bounded-exhaustive enumeration of keys over a 41-chunk alphabet x spellings x positions x near-miss sibling sets against direct map lookup",
         "Every key of up to 3 chunks (all ASCII symbol classes, controls, 2/3/4-byte characters, escape-like literal texts) is looked up in 5-7 spellings (minimal and full \\uXXXX escaping in both quote styles, dot notation with escapes, lone surrogates) at the root, after .., as a filter operand, compared with a string literal of the same raw text, and between two steps, alone and among siblings that differ only by escape characters; exactly the member's value must come back.",
         "Trusted: Go map lookup as the oracle, the harness's own escapers.", "DESIGN.md §4 C16"),
 "C18": ("E-ENUM", "exploration", "bounded-exhaustive enumeration of path ASTs x every spelling deviating at one (thorough: two) optional sites x documents, relational oracle canonical vs variant",
         "For every path AST of the bound every spelling that differs from the canonical one at one (thorough: two) optional site(s); spellings that omit the leading $ are also compared in accessor mode; sites: (spaces at each position the grammar allows, quote style, +/leading zeros, dot vs bracket, .* vs [*], omitted $) is parsed and evaluated on every document; values must be equal, or errors of the same type naming the same step.",
         "Trusted: the renderer's list of optional sites (derived from jsonpath.peg by hand), the mapping of error texts to step indices.", "DESIGN.md §4 C18"),
 "C02": ("E-ENUM", "exploration", "bounded-exhaustive enumeration of strings (token sequences, grammar sentences, all one-token mutants, pumped sentences, the suite's paths) x configs, each Parse in an isolated worker process; totality invariant on every execution",
         "Every string of the enumerated sets is parsed with no Config, with registered functions + accessor mode, and with two Config arguments, inside crash-isolated single-threaded workers (a fatal stack overflow is attributed to the single responsible string); Parse must return, and yield exactly one of (function, nil) or (nil, one of the four documented error types); an accepted function is called on three documents and must not panic.",
         "Trusted: the worker supervision (per-case progress word in shared memory, 60 s watchdog). Strings outside the enumerated sets are not covered.", "DESIGN.md §4 C02"),
 "C17": ("E-ENUM", "model_checking", "bounded-exhaustive enumeration of strings; the model is jsonpath.peg itself, executed by an independent PEG interpreter plus an action model; every predicted trace is compared with the generated parser",
         "For every string of the C02 sets the grammar file is interpreted with pure PEG semantics, the surviving actions are replayed in order through an action model that raises the documented restrictions, and the library must accept exactly when the model accepts, raise the same error class (first in action order) and produce the same error text: position = character offset of the longest accepted prefix, near = the rest of the path from that character.",
         "Trusted: the PEG interpreter h/pegi (its reading of every rule is compared with peg's own normal form in its tests), the action model h/pmodel (actions recognised by source text; degrades to acceptance-and-position checking if an action is unknown), Go's strconv/regexp/encoding/json for validity.", "DESIGN.md §4 C17, §2.5"),
 "C05": ("E-HIST", "model_checking", "exhaustive exploration of call histories x pool answers (deviation-bounded) on the real package state, instrumented build",
         "For every path of the bound (ladder paths also in accessor mode) every history of up to 3 (thorough 4) operations over {call on 4-5 documents chosen to flip the outcome and to vary the result size, unrelated Retrieve cycling both pools, scribble on the last result and append to every result held, the caller editing a document object in place} is executed on a freshly parsed function with every pool answer sequence of at most 1 (2) deviations; each call must equal a fresh Retrieve, earlier result slices (accessors through Get) must never change, documents stay intact. Single-step paths and the reduced atoms also get histories of length 4..6 (8), every path four histories on big documents, and 13 paths call the same parsed function again from inside a user function (re-entrancy).",
         "Trusted: the instrumented build (sync.Pool replaced by an explorer-owned free list), replay of a failing execution before it is reported. Histories beyond the bound are not covered.", "DESIGN.md §4 C05"),
 "C06": ("E-SCHED", "model_checking", "stateless exploration of all thread interleavings and pool answers of small closed drivers under a controlled cooperative scheduler with iterative preemption bounding; separate free-running -race pass",
         "About 210 hand-written two- and three-thread drivers (shared parsed functions on outcome-flipping documents, Parse||Parse over failing and succeeding paths and configs, Parse||call, two functions on one document, two operations per thread) and about 1.7k generated ones (one per short ladder path: both calls succeed on containers of different sizes, or both fail with different found types; leaves of Go types the process has never seen; a 70-member object or 70/90-element arrays first) are explored over every schedule with <=1 deviation at every scheduling point and <=2 at coarse points for the hand-written ones (thorough: 2 / 3); every call must return its run-alone result, no deadlock or panic, shared documents and functions intact afterwards. The same bodies run free under the race detector with 2..24 goroutines, and every short path is evaluated by three goroutines at once on one document object for every small, wide and big document (any write to caller data is a race).",
         "Trusted: scheduling points (lock/pool operations and every named function entry, inserted mechanically) are sufficient only together with the race pass, which is a sampled happens-before detector. More than 3 threads and weak-memory effects are outside the exhaustive part.", "DESIGN.md §4 C06, Appendix B"),
 "C07": ("E-HIST", "model_checking", "exhaustive enumeration of map iteration orders (owned by the explorer through the instrumented build) x documents with adversarial keys x paths, against the reference model's order",
         "For 16 paths with wildcard, filter, recursive, multi-name and aggregate steps and every object over 2..4-key subsets of 12 adversarial keys (plus 5..12-key objects, keys that are not valid UTF-8 and documents with shared containers), every iteration order at one (thorough: two) of the map ranges executed is explored, also after evaluations on maps of other sizes (pool recycling, pool answers enumerated) and after editing the same map in place; the result sequence must equal the model's in every execution.",
         "Trusted: vinstr's rewriting of every range over a string-keyed map (it reports ranges it cannot control), the reference model's ascending byte order.", "DESIGN.md §4 C07"),
 "C19": ("E-HIST", "model_checking", "exhaustive exploration of Parse call histories (depth-bounded, no deduplication) plus explicit-state BFS on a canonical hash of all package globals to a fixpoint; references from fresh subprocesses",
         "Every history of up to 3 (thorough 4; later operations from a core alphabet) operations over about 250 Parse operations (23 paths: plain / root omitted / failing at every action / failing inside a filter parameter / longer than 64, 128 and 1024 bytes / empty, x configs: none, {f}, {g}, {f'}, accessor, all, a shared object, two Config arguments, a by-value copy modified after copying, a caller-owned Config slice), 'rebind f in a used Config' and 're-call an earlier function' is replayed; every outcome - exact error, or behavioural fingerprint of the returned function plus the outcome of the one-shot Retrieve with the same arguments - must equal the same operation performed first in a fresh process. A breadth-first search over the hashed global state reaches a fixpoint. A mismatch is reduced, in fresh processes, to a short operation sequence that reproduces it.",
         "Trusted: the fingerprint (4 probe documents, accessor-ness, function behaviour); state hidden in closures of the generated matcher is outside the hash (the depth-bounded part does not depend on it).", "DESIGN.md §4 C19"),
}

def main():
    checks = []
    for pid in ALL:
        if pid not in CHECKS:
            continue
        eng, cat, tech, text, note, ref = CHECKS[pid]
        checks.append({
            "property_id": pid,
            "quick_cmd": "./check %s quick" % pid,
            "thorough_cmd": "./check %s thorough" % pid,
            "evidence_file": "/verif/evidence/%s.json" % pid,
            "replay_cmd_template": "./check replay {path}",
            "engine": eng,
            "level_claimed": {"category": cat, "text": text, "design_ref": ref},
            "level_note": note,
            "technique": tech,
        })
    na = [{"property_id": p, "reason": "check not built yet (work in progress) - not a statement that the technique cannot apply"} for p in ALL if p not in CHECKS]
    m = {
        "version": 1,
        "setup_cmd": "./setup.sh",
        "hooks": {
            "guard": "verif",
            "enable": "no hook code is committed to /repo: checks that need to own pool answers, map iteration order or scheduling generate an instrumented copy of the package from /repo's working tree at run time (h/cmd/vinstr) and compile it with `go build -tags verif -overlay`; the other checks use the public API of the plain build",
            "baseline_off_cmd": "cd /repo && GOFLAGS=-mod=mod GOPROXY=off GOSUMDB=off GOTOOLCHAIN=local go test -vet=off -count=1 ./...",
            "source_commits": [],
            "add_only": True,
        },
        "engines": [
            {"name": "E-HIST", "path": "/verif/h/sched", "serves_properties": ["C05", "C07", "C19"],
             "kind_free_text": "history / explicit-state exploration of the real package state on the instrumented build: the explorer owns pool answers and map iteration order (deviation-bounded DFS over choice sequences, prefix replay)"},
            {"name": "E-SCHED", "path": "/verif/h/sched", "serves_properties": ["C06"],
             "kind_free_text": "controlled cooperative scheduler over real goroutines with iterative preemption bounding (hand-written; hooks through the verifshim sync replacement), plus a free-running -race pass"},
            {"name": "E-ENUM", "path": "/verif/h/checks", "serves_properties": [p for p in ALL if p in CHECKS and CHECKS[p][0] == "E-ENUM"],
             "kind_free_text": "stateless bounded-exhaustive enumeration (programs x inputs x configurations), sharded over isolated single-threaded worker processes by h/run"},
        ],
        "checks": checks,
        "not_applicable": na,
        "notes": "All checks are `./check <id> <tier>`; the harness binary links /repo through a replace directive and is rebuilt from /repo's working tree on every invocation. known_findings.json lists repaired defects (fixed:) and recorded findings.",
    }
    json.dump(m, open(os.path.join(HERE, "MANIFEST.json"), "w"), indent=1)
    print("MANIFEST.json: %d checks, %d not_applicable" % (len(checks), len(na)))

main()
