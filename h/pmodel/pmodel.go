// Package pmodel is the action model of the parser: it turns the ordered trace of surviving
// grammar actions (computed by the PEG interpreter pegi from jsonpath.peg itself) into the
// expected outcome of Parse - accept, or which documented syntax-check error is raised first
// in action order, with its exact text - and into the model's own AST of the path.
//
// Actions are recognised by their source text in jsonpath.peg, not by index; an action whose
// text is not recognised makes the model "degraded" (acceptance and position checking only).
package pmodel

import (
	"encoding/json"
	"fmt"
	"regexp"
	"strconv"
	"strings"
	"unicode/utf8"

	"verif/h/gen"
	"verif/h/pegi"
)

type op int

const (
	opUnknown op = iota
	opFinish
	opCatchAll
	opChain
	opRecursive
	opSetText
	opFunction
	opFuncName
	opRoot
	opCurrent
	opDotName
	opMulti
	opWild
	opSQName
	opDQName
	opUnionMerge
	opSlice
	opIndex
	opStarSub
	opUnionWrap
	opStepOne
	opAnyIndex
	opScript
	opFilter
	opOr
	opAnd
	opTwoCurrentCheck
	opExists
	opEQ
	opNE
	opLE
	opLT
	opGE
	opGT
	opRegex
	opLitParam
	opSingleParam
	opSave
	opLoad
	opNumber
	opTrue
	opFalse
	opSQString
	opDQString
	opNull
)

// classification table: distinctive substrings of the action source (whitespace removed).
var classify = []struct {
	sub string
	o   op
}{
	{"p.root=p.deleteRootIdentifier", opFinish},
	{"msgErrorInvalidSyntaxUnrecognizedInput", opCatchAll},
	{"p.setNodeChain()", opChain},
	{"p.pushRecursiveChildIdentifier(", opRecursive},
	{"p.setLastNodeText(text)", opSetText},
	{"p.pushFunction(text,p.pop().(string))", opFunction},
	{"p.pushRootIdentifier()", opRoot},
	{"p.pushCurrentRootIdentifier()", opCurrent},
	{"p.pushChildSingleIdentifier(p.unescape(text))", opDotName},
	{"p.pushChildMultiIdentifier(identifier1,identifier2)", opMulti},
	{"p.pushChildWildcardIdentifier()", opWild},
	{"p.pushChildSingleIdentifier(p.unescapeSingleQuotedString(text))", opSQName},
	{"p.pushChildSingleIdentifier(p.unescapeDoubleQuotedString(text))", opDQName},
	{"parentIndexUnion.merge(childIndexUnion)", opUnionMerge},
	{"p.pushSlicePositiveStepSubscript(start,end,step)", opSlice},
	{"p.pushWildcardSubscript()", opStarSub},
	{"p.pushUnionQualifier(p.pop().(syntaxSubscript))", opUnionWrap},
	{"p.pushIndexSubscript(`1`)", opStepOne},
	{"p.pushOmittedIndexSubscript(`0`)", opAnyIndex},
	{"p.pushIndexSubscript(text)", opIndex}, // after opAnyIndex (which also contains this text)
	{"p.pushScriptQualifier(text)", opScript},
	{"p.pushFilterQualifier(p.pop().(syntaxQuery))", opFilter},
	{"p.pushLogicalOr(leftQuery,rightQuery)", opOr},
	{"p.pushLogicalAnd(leftQuery,rightQuery)", opAnd},
	{"msgErrorInvalidSyntaxTwoCurrentNode", opTwoCurrentCheck},
	{"p.pushLogicalNot(jsonpathFilter)", opExists},
	{"p.pushCompareEQ(leftParam,rightParam)", opEQ},
	{"p.pushCompareNE(leftParam,rightParam)", opNE},
	{"p.pushCompareLE(leftParam,rightParam)", opLE},
	{"p.pushCompareLT(leftParam,rightParam)", opLT},
	{"p.pushCompareGE(leftParam,rightParam)", opGE},
	{"p.pushCompareGT(leftParam,rightParam)", opGT},
	{"p.pushCompareRegex(leftParam,text)", opRegex},
	{"p.pushCompareParameterLiteral(p.pop())", opLitParam},
	{"msgErrorInvalidSyntaxFilterValueGroup", opSingleParam},
	{"p.saveParams()", opSave},
	{"p.loadParams()", opLoad},
	{"p.push(p.toFloat(text))", opNumber},
	{"p.push(true)", opTrue},
	{"p.push(false)", opFalse},
	{"p.push(p.unescape(text))", opSQString}, // both string forms; quote irrelevant
	{"p.push(nil)", opNull},
	{"p.push(text)", opFuncName},
}

func squash(s string) string {
	var sb strings.Builder
	for _, r := range s {
		if r != ' ' && r != '\t' && r != '\n' && r != '\r' {
			sb.WriteRune(r)
		}
	}
	return sb.String()
}

// Model binds the classification to a loaded grammar.
type Model struct {
	G        *pegi.Grammar
	ops      []op
	Degraded bool
	Unknown  []string
}

// New classifies every action of the grammar.
func New(g *pegi.Grammar) *Model {
	m := &Model{G: g, ops: make([]op, g.NumActions())}
	for i := range m.ops {
		_, code := g.ActionCode(i)
		sq := squash(code)
		for _, c := range classify {
			if strings.Contains(sq, c.sub) {
				m.ops[i] = c.o
				break
			}
		}
		if m.ops[i] == opUnknown {
			m.Degraded = true
			m.Unknown = append(m.Unknown, code)
		}
	}
	return m
}

// Config names the registered functions.
type Config struct {
	Filter    map[string]bool
	Aggregate map[string]bool
}

// Prediction is the expected outcome of Parse.
type Prediction struct {
	Accept  bool
	ErrType string
	ErrMsg  string
	AST     *gen.Path
	// Stuck: the action trace is inconsistent with the stack discipline the actions assume
	// (the model cannot say what should happen).
	Stuck    string
	CatchAll bool // the trace ends in the catch-all alternative
	Position int  // rune offset of the catch-all capture
}

type pathNode struct {
	p      *gen.Path
	aggr   bool // contains an aggregate function
	isRoot bool // begins with '$' or '@' written explicitly
}

type operandNode struct{ o *gen.Operand }
type paramNode struct{ p *pathNode }
type rootMark struct{ c byte }
type funcMark struct {
	name string
	aggr bool
}
type litVal struct{ l *gen.Literal }

type stuck string

type machine struct {
	params []interface{}
	saved  [][]interface{}
	cfg    Config
}

func (m *machine) push(v interface{}) { m.params = append(m.params, v) }
func (m *machine) pop() interface{} {
	if len(m.params) == 0 {
		panic(stuck("pop from an empty action stack"))
	}
	v := m.params[len(m.params)-1]
	m.params = m.params[:len(m.params)-1]
	return v
}

type modelErr struct{ typ, msg string }

func near(runes []rune, pos int) string {
	if pos < 0 {
		pos = 0
	}
	if pos > len(runes) {
		pos = len(runes)
	}
	// the rest of the path from that character on, bytes preserved
	return string(runes[pos:])
}

// nearBytes returns the byte suffix of the original string starting at rune index pos
// (invalid bytes count as one character each, and are preserved).
func nearBytes(s string, pos int) string {
	count := 0
	for i := range s {
		if count == pos {
			return s[i:]
		}
		count++
	}
	return ""
}

func unescapeAny(text string) string {
	// backslash followed by any character except newline stands for that character
	var sb strings.Builder
	rs := []rune(text)
	for i := 0; i < len(rs); i++ {
		if rs[i] == '\\' && i+1 < len(rs) && rs[i+1] != '\n' {
			sb.WriteRune(rs[i+1])
			i++
			continue
		}
		sb.WriteRune(rs[i])
	}
	return sb.String()
}

// decodeQuoted interprets the inside of a quoted bracket name with JSON string semantics
// (plus \' inside single quotes).
func decodeQuoted(text string, quote rune) (string, error) {
	var sb strings.Builder
	sb.WriteByte('"')
	rs := []rune(text)
	for i := 0; i < len(rs); i++ {
		c := rs[i]
		switch {
		case c == '\\' && i+1 < len(rs) && rs[i+1] == '\'':
			sb.WriteByte('\'')
			i++
		case c == '\\' && i+1 < len(rs):
			sb.WriteRune(c)
			sb.WriteRune(rs[i+1])
			i++
		case c == '"':
			sb.WriteString(`\"`)
		default:
			sb.WriteRune(c)
		}
	}
	sb.WriteByte('"')
	var out string
	err := json.Unmarshal([]byte(sb.String()), &out)
	return out, err
}

func (m *machine) step(o op, ev pegi.Event, input string) {
	text := ev.Text
	switch o {
	case opFinish:
		m.pop()
	case opCatchAll:
		panic(modelErr{"ErrorInvalidSyntax", fmt.Sprintf("invalid syntax (position=%d, reason=unrecognized input, near=%s)", ev.Begin, nearBytes(input, ev.Begin))})
	case opChain:
		if len(m.params) == 0 {
			panic(stuck("setNodeChain on an empty stack"))
		}
		pn := &pathNode{p: &gen.Path{Root: '$'}}
		for i, it := range m.params {
			switch t := it.(type) {
			case rootMark:
				if i != 0 {
					panic(stuck("root identifier in the middle of a chain"))
				}
				pn.p.Root = t.c
				pn.isRoot = true
			case gen.Step:
				if len(pn.p.Funcs) > 0 {
					panic(stuck("step after a function"))
				}
				pn.p.Steps = append(pn.p.Steps, t)
			case funcMark:
				pn.p.Funcs = append(pn.p.Funcs, t.name)
				if t.aggr {
					pn.aggr = true
				}
			default:
				panic(stuck(fmt.Sprintf("unexpected %T in a chain", it)))
			}
		}
		m.params = []interface{}{pn}
	case opRecursive:
		s, ok := m.pop().(gen.Step)
		if !ok {
			panic(stuck("recursive descent over a non-step"))
		}
		m.push(gen.Rec(s))
	case opSetText:
	case opFunction:
		name, ok := m.pop().(string)
		if !ok {
			panic(stuck("function name is not a string"))
		}
		switch {
		case m.cfg.Filter[name]:
			m.push(funcMark{name, false})
		case m.cfg.Aggregate[name]:
			m.push(funcMark{name, true})
		default:
			panic(modelErr{"ErrorFunctionNotFound", fmt.Sprintf("function not found (function=%s)", text)})
		}
	case opFuncName:
		m.push(text)
	case opRoot:
		m.push(rootMark{'$'})
	case opCurrent:
		m.push(rootMark{'@'})
	case opDotName:
		m.push(gen.Name(unescapeAny(text)))
	case opMulti:
		s2, ok2 := m.pop().(gen.Step)
		s1, ok1 := m.pop().(gen.Step)
		if !ok1 || !ok2 {
			panic(stuck("multi identifier over non-steps"))
		}
		item := func(s gen.Step) gen.MultiItem {
			if s.Kind == gen.KWild {
				return gen.MultiItem{Wild: true}
			}
			return gen.MultiItem{Name: s.Name}
		}
		if s1.Kind == gen.KMulti {
			s1.Items = append(append([]gen.MultiItem{}, s1.Items...), item(s2))
			m.push(s1)
		} else {
			m.push(gen.Step{Kind: gen.KMulti, Items: []gen.MultiItem{item(s1), item(s2)}})
		}
	case opWild:
		m.push(gen.Wild())
	case opSQName, opDQName:
		q := '\''
		if o == opDQName {
			q = '"'
		}
		name, err := decodeQuoted(text, q)
		if err != nil {
			panic(modelErr{"ErrorInvalidArgument", fmt.Sprintf("invalid argument (argument=%s, error=%s)", text, err)})
		}
		m.push(gen.BName(name))
	case opUnionMerge:
		c, ok2 := m.pop().(gen.Step)
		p, ok1 := m.pop().(gen.Step)
		if !ok1 || !ok2 || c.Kind != gen.KUnion || p.Kind != gen.KUnion {
			panic(stuck("union merge over non-unions"))
		}
		p.Subs = append(append([]gen.Sub{}, p.Subs...), c.Subs...)
		m.push(p)
	case opSlice:
		st, ok3 := m.pop().(gen.Num)
		en, ok2 := m.pop().(gen.Num)
		sa, ok1 := m.pop().(gen.Num)
		if !ok1 || !ok2 || !ok3 {
			panic(stuck("slice over non-integers"))
		}
		m.push(gen.Slice(sa, en, st))
	case opIndex:
		m.push(gen.Sub{Kind: gen.SIndex, N: m.toInt(text)})
	case opStepOne:
		m.push(gen.N(1))
	case opAnyIndex:
		if len(text) > 0 {
			m.push(m.toInt(text))
		} else {
			m.push(gen.Om())
		}
	case opStarSub:
		m.push(gen.Star())
	case opUnionWrap:
		switch t := m.pop().(type) {
		case gen.Sub:
			m.push(gen.Union(t))
		default:
			panic(stuck("union over a non-subscript"))
		}
	case opScript:
		panic(modelErr{"ErrorNotSupported", fmt.Sprintf("not supported (feature=script, path=[(%s)])", text)})
	case opFilter:
		q, ok := m.pop().(*gen.Query)
		if !ok {
			panic(stuck("filter over a non-query"))
		}
		m.push(gen.Filter(q))
	case opOr, opAnd:
		r, ok2 := m.pop().(*gen.Query)
		l, ok1 := m.pop().(*gen.Query)
		if !ok1 || !ok2 {
			panic(stuck("logical operator over non-queries"))
		}
		if o == opOr {
			m.push(gen.Or(l, r))
		} else {
			m.push(gen.And(l, r))
		}
	case opTwoCurrentCheck:
		q, ok := m.pop().(*gen.Query)
		if !ok {
			panic(stuck("comparator did not leave a query"))
		}
		m.push(q)
		if q.Kind == gen.QCmp && q.L.P != nil && q.R.P != nil && q.L.P.Root == '@' && q.R.P.Root == '@' {
			panic(modelErr{"ErrorInvalidSyntax", fmt.Sprintf("invalid syntax (position=%d, reason=comparison between two current nodes is prohibited, near=%s)", ev.Begin, nearBytes(input, ev.Begin))})
		}
	case opExists:
		if _, ok := m.pop().(bool); !ok {
			panic(stuck("existence test: missing literal flag"))
		}
		pn, ok := m.pop().(paramNode)
		if !ok {
			panic(stuck("existence test over a non-parameter"))
		}
		if strings.HasPrefix(text, "!") {
			m.push(gen.NotExists(pn.p.p))
		} else {
			m.push(gen.Exists(pn.p.p))
		}
	case opEQ, opNE, opLE, opLT, opGE, opGT:
		r, ok2 := m.pop().(operandNode)
		l, ok1 := m.pop().(operandNode)
		if !ok1 || !ok2 {
			panic(stuck("comparison over non-operands"))
		}
		sym := map[op]string{opEQ: "==", opNE: "!=", opLE: "<=", opLT: "<", opGE: ">=", opGT: ">"}[o]
		m.push(gen.Cmp(sym, l.o, r.o))
	case opRegex:
		l, ok := m.pop().(operandNode)
		if !ok || l.o.P == nil {
			panic(stuck("regex over a non-path operand"))
		}
		if _, err := regexp.Compile(text); err != nil {
			panic(modelErr{"ErrorInvalidArgument", fmt.Sprintf("invalid argument (argument=%s, error=%s)", text, err)})
		}
		m.push(gen.Regex(l.o.P, text))
	case opLitParam:
		lv, ok := m.pop().(litVal)
		if !ok {
			panic(stuck("literal parameter over a non-literal"))
		}
		m.push(operandNode{&gen.Operand{Lit: lv.l}})
	case opSingleParam:
		if _, ok := m.pop().(bool); !ok {
			panic(stuck("comparison operand: missing literal flag"))
		}
		pn, ok := m.pop().(paramNode)
		if !ok {
			panic(stuck("comparison operand is not a path parameter"))
		}
		if !pn.p.aggr && !pn.p.p.SingleValued() {
			panic(modelErr{"ErrorInvalidSyntax", fmt.Sprintf("invalid syntax (position=%d, reason=JSONPath that returns a value group is prohibited, near=%s)", ev.Begin, nearBytes(input, ev.Begin))})
		}
		m.push(operandNode{&gen.Operand{P: pn.p.p}})
	case opSave:
		if len(m.params) > 0 {
			m.saved = append(m.saved, m.params)
			m.params = nil
		}
	case opLoad:
		if len(m.saved) > 0 {
			m.params = append(m.saved[len(m.saved)-1], m.params...)
			m.saved = m.saved[:len(m.saved)-1]
		}
		pn, ok := m.pop().(*pathNode)
		if !ok {
			panic(stuck("filter parameter is not a path"))
		}
		if !pn.isRoot {
			panic(stuck("filter parameter without $ or @"))
		}
		m.push(paramNode{pn})
		m.push(pn.p.Root == '$')
	case opNumber:
		f, err := strconv.ParseFloat(text, 64)
		if err != nil {
			panic(modelErr{"ErrorInvalidArgument", fmt.Sprintf("invalid argument (argument=%s, error=%s)", text, err)})
		}
		m.push(litVal{&gen.Literal{Kind: gen.LNum, Num: f, Raw: text}})
	case opTrue:
		m.push(litVal{&gen.Literal{Kind: gen.LBool, Bool: true}})
	case opFalse:
		m.push(litVal{&gen.Literal{Kind: gen.LBool, Bool: false}})
	case opSQString, opDQString:
		m.push(litVal{&gen.Literal{Kind: gen.LStr, Str: unescapeAny(text)}})
	case opNull:
		m.push(litVal{&gen.Literal{Kind: gen.LNull}})
	default:
		panic(stuck("unclassified action"))
	}
}

func (m *machine) toInt(text string) gen.Num {
	v, err := strconv.Atoi(text)
	if err != nil {
		panic(modelErr{"ErrorInvalidArgument", fmt.Sprintf("invalid argument (argument=%s, error=%s)", text, err)})
	}
	return gen.Num{V: int64(v)}
}

// Predict computes the expected outcome of Parse(input, cfg).
func (m *Model) Predict(input string, cfg Config) (pr Prediction) {
	res := m.G.Parse(input)
	if !res.Matched {
		pr.Stuck = "grammar did not match (the catch-all alternative should make this impossible)"
		return
	}
	if n := len(res.Events); n > 0 && m.ops[res.Events[n-1].Action] == opCatchAll {
		pr.CatchAll = true
		pr.Position = res.Events[n-1].Begin
	}
	if m.Degraded {
		return
	}
	mc := &machine{cfg: cfg}
	defer func() {
		if e := recover(); e != nil {
			switch t := e.(type) {
			case modelErr:
				pr.Accept, pr.ErrType, pr.ErrMsg = false, t.typ, t.msg
			case stuck:
				pr.Stuck = string(t)
			default:
				panic(e)
			}
		}
	}()
	var last *pathNode
	for _, ev := range res.Events {
		o := m.ops[ev.Action]
		if o == opFinish {
			if len(mc.params) == 0 {
				panic(stuck("finish on an empty stack"))
			}
			pn, ok := mc.params[len(mc.params)-1].(*pathNode)
			if !ok {
				panic(stuck("finish over a non-path"))
			}
			last = pn
		}
		mc.step(o, ev, input)
	}
	if last == nil {
		pr.Stuck = "no finishing action"
		return
	}
	pr.Accept = true
	pr.AST = last.p
	return
}

// ValidUTF8 is re-exported for callers that want to classify inputs.
func ValidUTF8(s string) bool { return utf8.ValidString(s) }
