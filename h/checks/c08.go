package checks

import (
	"fmt"

	"verif/h/gen"
	"verif/h/impl"
	"verif/h/run"
)

// C08: steps compose. Relational (three or more retrievals of the implementation, no model):
//   split:  R(P·Q, d)        = concat over v in R(P, d) of R($·Q, v)
//   recur:  R(P·..X·Q, d)    = concat over v in R(P, d), over every container c of v in pre-order, of R($·X·Q, c)
//   union:  R(P·[s1,..,sn]·Q) = concat over v in R(P, d) of R($[s1]Q, v) ++ ... ++ R($[sn]Q, v)   (also multi-name)

type c08Job struct {
	units []gen.Unit
	ds    *docSet
	env   *impl.Env
	cache map[string]impl.Func
}

func c08Ladders(tier string) []gen.Ladder {
	if tier == "thorough" {
		return []gen.Ladder{
			// short paths on every document of <=5 nodes; longer ones on the documents of <=4 nodes
			// plus the wide and big ones
			{Alpha: gen.SigmaFull(), Depth: 2, Funcs: gen.FuncSuffixes(), FuncDepth: 2},
			{Alpha: gen.SigmaFull(), Depth: 3, MinPrefix: 2, SmallDocs: true},
			{Alpha: gen.SigmaMid(), Depth: 4, MinPrefix: 3, SmallDocs: true},
		}
	}
	return []gen.Ladder{
		{Alpha: gen.SigmaFull(), Depth: 2, Funcs: gen.FuncSuffixes(), FuncDepth: 2},
		{Alpha: gen.SigmaMid(), Depth: 3, MinPrefix: 2, CoreDocs: true},
	}
}

func newC08(tier string) run.Job {
	return &c08Job{units: unitsOf(c08Ladders(tier)), ds: newDocSet(stdDocSpec(tier), []int{modeFloat}), env: impl.NewEnv(), cache: map[string]impl.Func{}}
}

func (j *c08Job) NumUnits() int { return len(j.units) }
func (j *c08Job) Describe(i int) map[string]interface{} {
	pre := gen.Render(&gen.Path{Root: '$', Steps: j.units[i].Prefix}, nil).Text
	return map[string]interface{}{"unit": i, "prefix": pre, "sig": "unit:" + pre}
}

func (j *c08Job) parse(p *gen.Path) (impl.Func, string) {
	text := gen.Render(p, nil).Text
	if f, ok := j.cache[text]; ok {
		return f, text
	}
	pr := impl.Parse(text, &j.env.Cfg)
	if len(j.cache) > 3000 {
		j.cache = map[string]impl.Func{}
	}
	j.cache[text] = pr.F
	return pr.F, text
}

func hasAggregate(funcs []string) bool {
	for _, f := range funcs {
		if gen.IsAggregateName(f) {
			return true
		}
	}
	return false
}

// c08Relation is one decomposition of a path.
type c08Relation struct {
	kind  string
	whole *gen.Path
	pre   *gen.Path   // P
	conts []*gen.Path // continuation(s) applied to each value of P (in this order)
	recur bool        // apply the continuation to every container (pre-order) of each value
}

func c08Relations(p *gen.Path) []c08Relation {
	var out []c08Relation
	n := len(p.Steps)
	for k := 0; k <= n; k++ {
		rest := &gen.Path{Root: '$', Steps: p.Steps[k:], Funcs: p.Funcs}
		if rest.HasRootOperand() || hasAggregate(p.Funcs) {
			continue
		}
		pre := &gen.Path{Root: '$', Steps: p.Steps[:k]}
		if k >= 1 && (k < n || len(p.Funcs) > 0) {
			out = append(out, c08Relation{kind: "split", whole: p, pre: pre, conts: []*gen.Path{rest}})
		}
		if k < n {
			s := p.Steps[k]
			after := p.Steps[k+1:]
			mk := func(x gen.Step) *gen.Path {
				return &gen.Path{Root: '$', Steps: append([]gen.Step{x}, after...), Funcs: p.Funcs}
			}
			switch s.Kind {
			case gen.KRec:
				out = append(out, c08Relation{kind: "recursive", whole: p, pre: pre, conts: []*gen.Path{mk(*s.Inner)}, recur: true})
			case gen.KUnion:
				if len(s.Subs) > 1 {
					var cs []*gen.Path
					for _, sub := range s.Subs {
						if sub.Kind == gen.SStar {
							// the single selector of a '*' subscript is "all elements of the array"
							// ([*] alone would also accept objects, which a union never does)
							cs = append(cs, mk(gen.Union(gen.Slice2(gen.N(0), gen.Om()))))
						} else {
							cs = append(cs, mk(gen.Union(sub)))
						}
					}
					out = append(out, c08Relation{kind: "union", whole: p, pre: pre, conts: cs})
				}
			case gen.KMulti:
				nWild := 0
				for _, it := range s.Items {
					if it.Wild {
						nWild++
					}
				}
				if nWild != 0 && nWild != len(s.Items) {
					// a name list mixed with '*' applies to objects only while [*] alone also
					// accepts arrays: the property does not say which single selector is meant
					break
				}
				var cs []*gen.Path
				for _, it := range s.Items {
					if it.Wild {
						cs = append(cs, mk(gen.BWild()))
					} else {
						cs = append(cs, mk(gen.BName(it.Name)))
					}
				}
				out = append(out, c08Relation{kind: "multi-name", whole: p, pre: pre, conts: cs})
			}
		}
	}
	return out
}

func containersPreorder(v interface{}, out *[]interface{}) {
	switch t := v.(type) {
	case map[string]interface{}:
		*out = append(*out, v)
		for _, k := range gen.SortedKeys(t) {
			containersPreorder(t[k], out)
		}
	case []interface{}:
		*out = append(*out, v)
		for _, x := range t {
			containersPreorder(x, out)
		}
	}
}

// c08Eval evaluates one relation on one document; parse results are supplied by get.
func c08Eval(r *c08Relation, doc interface{}, get func(*gen.Path) impl.Func) (ok bool, detail string, nontrivial bool, calls int) {
	fw, fp := get(r.whole), get(r.pre)
	if fw == nil || fp == nil {
		return true, "", false, 0
	}
	var fcs []impl.Func
	for _, cp := range r.conts {
		f := get(cp)
		if f == nil {
			return true, "", false, 0
		}
		fcs = append(fcs, f)
	}
	whole := impl.Call(fw, doc)
	pre := impl.Call(fp, doc)
	calls = 2
	if whole.Panic != "" || pre.Panic != "" {
		return false, "panic: " + whole.Panic + pre.Panic, false, calls
	}
	var concat []interface{}
	for _, v := range pre.Values {
		targets := []interface{}{v}
		if r.recur {
			targets = targets[:0]
			containersPreorder(v, &targets)
		}
		for _, t := range targets {
			for _, f := range fcs {
				res := impl.Call(f, t)
				calls++
				if res.Panic != "" {
					return false, "panic: " + res.Panic, false, calls
				}
				concat = append(concat, res.Values...)
			}
		}
	}
	nontrivial = len(concat) > 0
	if len(concat) == 0 {
		if whole.ErrType == "" {
			return false, fmt.Sprintf("the parts select nothing, but the whole path returned %s", show(whole.Values)), nontrivial, calls
		}
		return true, "", nontrivial, calls
	}
	if whole.ErrType != "" {
		return false, fmt.Sprintf("the parts select %s, but the whole path failed with %s: %s", show(concat), whole.ErrType, whole.ErrMsg), nontrivial, calls
	}
	if !sameValues(whole.Values, concat) {
		return false, fmt.Sprintf("the whole path returned %s, the concatenation of the parts is %s", show(whole.Values), show(concat)), nontrivial, calls
	}
	return true, "", nontrivial, calls
}

func c08Describe(r *c08Relation) string {
	s := gen.Render(r.whole, nil).Text + " = [" + gen.Render(r.pre, nil).Text + "] then "
	if r.recur {
		s += "every container, "
	}
	for i, cp := range r.conts {
		if i > 0 {
			s += " ++ "
		}
		s += gen.Render(cp, nil).Text
	}
	return s
}

func (j *c08Job) RunUnit(i int, c *run.Ctx) {
	u := j.units[i]
	var rels []c08Relation
	for _, p := range u.Paths() {
		rels = append(rels, c08Relations(p)...)
	}
	get := func(p *gen.Path) impl.Func { f, _ := j.parse(p); return f }
	m := modeFloat
	docIdx := j.ds.indices(u.L)
	for ri := range rels {
		r := &rels[ri]
		for _, di := range docIdx {
			c.Tick()
			doc := j.ds.docs[m][di]
			ok, detail, nontrivial, calls := c08Eval(r, doc, get)
			c.Evals += int64(calls)
			c.Add("relation_instances", 1)
			if nontrivial {
				c.Nontrivial++
			}
			c.Outcome(fmt.Sprintf("%s/nonempty=%v", r.kind, nontrivial))
			if j.ds.restore(m, di) {
				c.Add("source_mutation_seen", 1)
			}
			if ok {
				if nontrivial && r.kind != "split" {
					c.Sample(map[string]interface{}{"relation": c08Describe(r), "doc": j.ds.text[di]})
				}
				continue
			}
			// re-judge from scratch on a fresh document with fresh parses
			fdoc := gen.Clone(j.ds.pristine[m][di])
			env := impl.NewEnv()
			fok, fdetail, _, _ := c08Eval(r, fdoc, func(p *gen.Path) impl.Func { return impl.Parse(gen.Render(p, nil).Text, &env.Cfg).F })
			if fok {
				c.Add("history_dependence_seen", 1)
				continue
			}
			detail = fdetail
			cs := caseOfP("C08", r.whole, gen.Render(r.whole, nil).Text, j.ds.text[di], m, "funcs")
			cs["relation"] = r.kind
			cs["relation_text"] = c08Describe(r)
			c.Violate(run.Violation{
				Sig:    r.kind + ":" + gen.Shape(r.whole),
				Detail: fmt.Sprintf("%s on %s: %s", c08Describe(r), j.ds.text[di], detail),
				Size:   len(gen.Render(r.whole, nil).Text)*100 + len(j.ds.text[di]),
				Case:   cs,
			})
		}
	}
}

func init() {
	run.Register(&run.Check{
		ID:    "C08",
		Level: "exploration",
		Rule:  "every (decomposition of a path, document): every split point P|Q, every recursive-descent step (..X = X on every container in pre-order), every union / multi-name selector (= concatenation of its single selectors); continuations with a $-rooted operand or an aggregate are excluded as the property states; non-trivial = the parts select at least one value",
		Assumptions: []string{
			"relational oracle between retrievals of the implementation only; the pre-order container listing used for ..X is computed by the harness (sorted keys, index order)",
		},
		Bounds: map[string]string{
			"quick":    "paths of <=2 steps over the 50-step alphabet (+7 trailing functions) and 3 steps over the 16-step alphabet, every decomposition, every document of <=4 nodes",
			"thorough": "paths of <=3 steps over the 50-step alphabet, 4 steps over the 16-step alphabet, every decomposition; paths of <=2 steps on every document of <=5 nodes, longer ones on the documents of <=4 nodes plus the wide and big documents",
		},
		New: newC08,
		Replay: func(cs map[string]interface{}) (bool, string) {
			p := astOf(cs)
			if p == nil {
				return false, "no ast"
			}
			_ = cs["doc"]
			kind, _ := cs["relation"].(string)
			text, _ := cs["relation_text"].(string)
			env := impl.NewEnv()
			for _, r := range c08Relations(p) {
				r := r
				if r.kind != kind || c08Describe(&r) != text {
					continue
				}
				ok, detail, _, _ := c08Eval(&r, docOfCase(cs), func(p *gen.Path) impl.Func { return impl.Parse(gen.Render(p, nil).Text, &env.Cfg).F })
				return !ok, detail
			}
			return false, "relation not found"
		},
	})
}
