package checks

import (
	"fmt"
	"reflect"

	"verif/h/gen"
	"verif/h/impl"
	"verif/h/run"
	"verif/h/spec"
)

// C12: accessor mode changes only the wrapping of results.

func c12Ladders(tier string) []gen.Ladder {
	mixed := append(gen.SigmaMid(), gen.SigmaFuncFilters()...)
	if tier == "thorough" {
		return []gen.Ladder{
			{Alpha: gen.SigmaFull(), Depth: 2, Funcs: gen.FuncSuffixes(), FuncDepth: 2},
			{Alpha: gen.SigmaFull(), Depth: 3, MinPrefix: 2, Modes: []int{modeFloat}, SmallDocs: true},
			{Alpha: mixed, Depth: 3, Funcs: gen.FuncSuffixes(), FuncDepth: 3, Keep: hasFuncFilter, Modes: []int{modeFloat}, SmallDocs: true},
		}
	}
	return []gen.Ladder{
		{Alpha: gen.SigmaFull(), Depth: 2, Funcs: gen.FuncSuffixes(), FuncDepth: 2},
		{Alpha: mixed, Depth: 3, Funcs: gen.FuncSuffixes(), FuncDepth: 2, Keep: hasFuncFilter, Modes: []int{modeFloat}},
	}
}

// hasFuncFilter keeps paths that contain a filter with a function in an operand (the rest is
// covered by the first ladder).
func hasFuncFilter(p *gen.Path) bool {
	for i := range p.Steps {
		s := &p.Steps[i]
		if s.Kind == gen.KRec {
			s = s.Inner
		}
		if s.Kind == gen.KFilter && queryHasFunc(s.Q) {
			return true
		}
	}
	return false
}

func queryHasFunc(q *gen.Query) bool {
	switch q.Kind {
	case gen.QExists, gen.QRegex:
		return len(q.P.Funcs) > 0
	case gen.QCmp:
		return (q.L.P != nil && len(q.L.P.Funcs) > 0) || (q.R.P != nil && len(q.R.P.Funcs) > 0)
	case gen.QAnd, gen.QOr:
		return queryHasFunc(q.A) || queryHasFunc(q.B)
	case gen.QParen:
		return queryHasFunc(q.A)
	}
	return false
}

// c12Compare relates a plain-mode call and an accessor-mode call of the same path on the same document.
func c12Compare(plain, acc impl.CallResult, plainLog, accLog []spec.Call, logLen func() int) (ok bool, kind, detail string) {
	if plain.Panic != "" || acc.Panic != "" {
		return false, "panic", fmt.Sprintf("panic: plain=%q accessor=%q", plain.Panic, acc.Panic)
	}
	if plain.ErrType != acc.ErrType || plain.ErrMsg != acc.ErrMsg {
		return false, "error-differs", fmt.Sprintf("plain mode: %s %q; accessor mode: %s %q", plain.ErrType, plain.ErrMsg, acc.ErrType, acc.ErrMsg)
	}
	if plain.ErrType == "" {
		got, isAcc := impl.Unwrap(acc.Values)
		if !isAcc {
			return false, "not-accessor", fmt.Sprintf("accessor mode returned a non-Accessor result: %s", show(acc.Values))
		}
		if logLen != nil && logLen() != len(accLog) {
			return false, "get-calls-function", fmt.Sprintf("reading the accessors (Get) called user functions %d more time(s)", logLen()-len(accLog))
		}
		if !sameValues(got, plain.Values) {
			return false, "selection-differs", fmt.Sprintf("plain mode returns %s, accessors Get() %s", show(plain.Values), show(got))
		}
	}
	for _, cl := range accLog {
		if hasAccessor(cl.Arg) {
			return false, "function-saw-accessor", fmt.Sprintf("function %s received an Accessor in accessor mode", cl.Name)
		}
	}
	if len(plainLog) != len(accLog) || !reflect.DeepEqual(impl.LogsByName(plainLog), impl.LogsByName(accLog)) {
		return false, "function-args-differ", fmt.Sprintf("user functions were called with different arguments: plain %d calls %s, accessor %d calls %s",
			len(plainLog), showLog(plainLog), len(accLog), showLog(accLog))
	}
	return true, "", ""
}

func hasAccessor(v interface{}) bool {
	switch t := v.(type) {
	case []interface{}:
		for _, x := range t {
			if hasAccessor(x) {
				return true
			}
		}
	default:
		return reflect.TypeOf(v) != nil && reflect.TypeOf(v).String() == "jsonpath.Accessor"
	}
	return false
}

func showLog(l []spec.Call) string {
	s := ""
	for i, c := range l {
		if i > 5 {
			s += " ..."
			break
		}
		s += fmt.Sprintf(" %s(%s)", c.Name, showVal(c.Arg))
	}
	return s
}

func c12Oracle(j *productJob, c *run.Ctx, pc *pathCase, di, m int, out *spec.Outcome, plain impl.CallResult) {
	plainLog := append([]spec.Call{}, j.env.ImplLog...)
	doc := j.ds.docs[m][di]
	j.env.ResetImpl()
	acc := impl.Call(pc.fAcc, doc)
	accLog := j.env.ImplLog
	c.Evals++
	c.Outcome(plain.Key())
	if plain.ErrType == "" || len(plainLog) > 0 {
		c.Nontrivial++
	}
	ok, kind, detail := c12Compare(plain, acc, plainLog, accLog, func() int { return len(j.env.ImplLog) })
	if ok {
		if len(plainLog) > 1 && plain.ErrType == "" {
			c.Sample(map[string]interface{}{"path": pc.r.Text, "doc": j.ds.text[di], "mode": modeName[m], "result": show(plain.Values), "function_calls": showLog(plainLog)})
		}
		return
	}
	// judge a fresh pair only
	fdoc := gen.Clone(j.ds.pristine[m][di])
	env := impl.NewEnv()
	p1, p2 := impl.Parse(pc.r.Text, &env.Cfg), impl.Parse(pc.r.Text, &env.CfgAcc)
	if p1.F != nil && p2.F != nil {
		r1 := impl.Call(p1.F, fdoc)
		l1 := append([]spec.Call{}, env.ImplLog...)
		env.ResetImpl()
		r2 := impl.Call(p2.F, fdoc)
		if fok, fk, fd := c12Compare(r1, r2, l1, env.ImplLog, func() int { return len(env.ImplLog) }); fok {
			c.Add("history_dependence_seen", 1)
			return
		} else {
			kind, detail = fk, fd
		}
	}
	c.Violate(run.Violation{
		Sig:    kind + ":" + gen.Shape(pc.p),
		Detail: fmt.Sprintf("%s on %s (%s): %s", pc.r.Text, j.ds.text[di], modeName[m], detail),
		Size:   len(pc.r.Text)*100 + len(j.ds.text[di]),
		Case:   caseOfP("C12", pc.p, pc.r.Text, j.ds.text[di], m, "funcs"),
	})
}

func init() {
	run.Register(&run.Check{
		ID:    "C12",
		Level: "exploration",
		Rule:  "every (path, document, decoding) is evaluated once per mode with identical recording function sets; a case is distinct by (path text, document, decoding) and non-trivial when the plain call succeeds or calls a user function",
		Assumptions: []string{
			"relational oracle between two runs of the implementation: same number of results, Get() of the i-th accessor equals the i-th plain value, same error type and text, identical recorded function arguments (never an Accessor)",
		},
		Bounds: map[string]string{
			"quick":    "all paths of <=2 steps over the 50-step alphabet with each of 7 trailing functions (both decodings); all paths of <=3 steps over (16-step alphabet + 13 filters with functions inside operands) that contain such a filter, each also with trailing functions; every document of <=4 nodes",
			"thorough": "paths of <=2 steps (+functions) on every document of <=5 nodes in both decodings; 3 steps over the full alphabet and the function-filter ladder (functions after <=3 steps) on documents of <=4 nodes",
		},
		New: func(tier string) run.Job {
			return &productJob{
				id:      "C12",
				units:   unitsOf(c12Ladders(tier)),
				ds:      newDocSet(stdDocSpec(tier), []int{modeFloat, modeNumber}),
				env:     impl.NewEnv(),
				oracle:  c12Oracle,
				needAcc: true,
			}
		},
		Replay: func(cs map[string]interface{}) (bool, string) {
			return replayProduct(cs, func(path string, p *gen.Path, doc interface{}, env *impl.Env) (bool, string) {
				p1, p2 := impl.Parse(path, &env.Cfg), impl.Parse(path, &env.CfgAcc)
				if p1.F == nil {
					return false, "does not parse"
				}
				if p2.F == nil {
					return true, "parses without accessor mode but not with it"
				}
				r1 := impl.Call(p1.F, doc)
				l1 := append([]spec.Call{}, env.ImplLog...)
				env.ResetImpl()
				r2 := impl.Call(p2.F, doc)
				ok, _, detail := c12Compare(r1, r2, l1, env.ImplLog, func() int { return len(env.ImplLog) })
				return !ok, detail
			})
		},
	})
}
