package checks

import (
	"fmt"
	"regexp"
	"strconv"
	"strings"

	"verif/h/gen"
	"verif/h/impl"
	"verif/h/run"
	"verif/h/spec"
)

// C10: comparisons are type-strict and numeric by value, whatever the number decoding.
// Documents are written as JSON text and decoded twice (float64 / json.Number).

// c10Vals: JSON spellings of operand values; "" = absent. The second group are number
// spellings that are not Go's shortest formatting (only used where the property allows).
var c10Vals = []string{"", "1", "2", "1.5", "-1", `"a"`, `"1"`, "true", "false", "null", "{}", "[1]", `{"a":1}`, `{"x":null}`, `{"y":null}`, `[null]`}
var c10OddNumbers = []string{"1.0", "1e0", "100e-2", "2.000", "0.15e1", "1.0000000000000002", "0.9999999999999999",
	// integers that do not fit int64 / have 19 digits (hand-written integer fast paths wrap)
	"9223372036854775808", "9999999999999999999", "-9223372036854775809"}

type c10Job struct {
	atoms []*gen.Query
	env   *impl.Env
	vals  []string
	fs    map[string]impl.Func
}

func newC10(tier string) run.Job {
	j := &c10Job{atoms: gen.Atoms(), env: impl.NewEnv(), fs: map[string]impl.Func{}}
	j.vals = append(append([]string{}, c10Vals...), c10OddNumbers...)
	return j
}

// unit = (value of @.a, value of @.b); inside: all ($.a, $.b) x atoms x decodings;
// plus one unit per first chunk of the string-literal family
func (j *c10Job) NumUnits() int {
	return len(j.vals)*len(j.vals) + len(c10StrChunks) + 1 + len(c10NumLiterals)
}

// number literals in the PATH in unusual spellings (the grammar takes [-+]?[0-9][-+.0-9a-zA-Z]*
// and hands the text to strconv.ParseFloat): signed zero, exponents, trailing zeros, leading
// zeros and sign, a hexadecimal float. One unit per spelling.
var c10NumLiterals = []string{"-0", "0", "+1", "01", "1.0", "1e0", "1E+0", "0.1e1", "10e-1", "1.000", "0x1p0", "2.5e-1", "-1.5", "1e-400", "123456789012345678901234567890"}

var c10NumMembers = []string{`{}`, `{"a":0}`, `{"a":-0}`, `{"a":1}`, `{"a":1.0}`, `{"a":1e0}`, `{"a":0.25}`, `{"a":-1.5}`, `{"a":2}`, `{"a":"1"}`, `{"a":null}`, `{"a":true}`,
	`{"a":123456789012345678901234567890}`, `{"a":[1]}`, `{"a":1e-400}`}

func (j *c10Job) runNumbers(k int, c *run.Ctx) {
	raw := c10NumLiterals[k]
	v, err := strconv.ParseFloat(raw, 64)
	if err != nil {
		c.Add("literal_not_a_float", 1)
		return
	}
	lit := &gen.Operand{Lit: &gen.Literal{Kind: gen.LNum, Num: v, Raw: raw}}
	at := gen.OpP(gen.P('@', gen.Name("a")))
	rootB := gen.OpP(gen.P('$', gen.Name("b")))
	docText := `{"b":` + raw + `,"c":[` + strings.Join(c10NumMembers, ",") + `]}`
	if _, err := strconv.ParseFloat(raw, 64); raw[0] == '+' || raw == "01" || strings.HasPrefix(raw, "0x") || err != nil {
		docText = `{"b":1,"c":[` + strings.Join(c10NumMembers, ",") + `]}` // not a JSON number spelling
	}
	var qs []*gen.Query
	for _, op := range []string{"==", "!=", "<", "<=", ">", ">="} {
		qs = append(qs, gen.Cmp(op, at, lit), gen.Cmp(op, lit, at), gen.Cmp(op, lit, rootB), gen.Cmp(op, lit, lit))
	}
	var docs [2]interface{}
	docs[modeFloat] = decodeDoc(docText, modeFloat)
	docs[modeNumber] = decodeDoc(docText, modeNumber)
	for _, q := range qs {
		c.Tick()
		p := gen.P('$', gen.Name("c"), gen.Filter(q))
		text := gen.Render(p, nil).Text
		pr := impl.Parse(text, &j.env.Cfg)
		if pr.F == nil {
			c.Violate(run.Violation{Sig: "number-literal-rejected:" + gen.QueryShape(q), Detail: fmt.Sprintf("%s rejected: %s %s %s", text, pr.ErrType, pr.ErrMsg, pr.Panic), Size: len(text),
				Case: map[string]interface{}{"path": text, "doc": docText, "mode": modeName[0], "ast": jsonRaw(p)}})
			continue
		}
		var shown [2]string
		var masks [2]string
		for _, m := range []int{modeFloat, modeNumber} {
			out := spec.Eval(p, docs[m], j.env.Model)
			res := impl.Call(pr.F, docs[m])
			c.Evals++
			c.Traces++
			c.Outcome(res.Key())
			if len(out.Nodes) > 0 {
				c.Nontrivial++
			}
			shown[m] = res.ErrType + show(res.Values)
			mk, mok := maskOf(res.Values, docs[m].(map[string]interface{})["c"].([]interface{}))
			masks[m] = fmt.Sprintf("%s/%b/%v", res.ErrType, mk, mok)
			if ok, kind, detail := c01Judge(&out, res); !ok {
				c.Violate(run.Violation{
					Sig:    "number-literal-" + kind + ":" + gen.QueryShape(q),
					Detail: fmt.Sprintf("%s on %s (%s): %s", text, docText, modeName[m], detail),
					Size:   len(text)*100 + len(docText),
					Case:   map[string]interface{}{"path": text, "doc": docText, "mode": modeName[m], "ast": jsonRaw(p)},
				})
			}
		}
		if masks[0] != masks[1] {
			c.Violate(run.Violation{
				Sig:    "number-literal-decoding:" + gen.QueryShape(q),
				Detail: fmt.Sprintf("%s on %s: float64 decoding gives %s, json.Number decoding gives %s", text, docText, shown[0], shown[1]),
				Size:   len(text)*100 + len(docText),
				Case:   map[string]interface{}{"path": text, "doc": docText, "mode": "both", "ast": jsonRaw(p)},
			})
		}
	}
}
func (j *c10Job) Describe(i int) map[string]interface{} {
	return map[string]interface{}{"unit": i, "sig": fmt.Sprintf("c10unit:%d", i)}
}

func c10Obj(a, b string, extra string) string {
	var parts []string
	if a != "" {
		parts = append(parts, `"a":`+a)
	}
	if b != "" {
		parts = append(parts, `"b":`+b)
	}
	if extra != "" {
		parts = append(parts, extra)
	}
	return "{" + strings.Join(parts, ",") + "}"
}

func isOdd(v string) bool {
	for _, o := range c10OddNumbers {
		if v == o {
			return true
		}
	}
	return false
}

// pathVsPathEq: == or != between two paths (DeepEqual on the decoded values: spellings matter)
func pathVsPathEq(q *gen.Query) bool {
	return q.Kind == gen.QCmp && (q.Op == "==" || q.Op == "!=") && q.L.P != nil && q.R.P != nil
}

// string literals: "a string literal matches only strings", for every string over a chunk
// alphabet with quotes, backslashes, slashes, spaces and non-ASCII, in both quote styles and
// both operand orders, and as a regular expression with escaped slashes.
var c10StrChunks = []string{"a", "'", `"`, `\`, "/", " ", "\u00e9", "1", "n", ".", "\n", "(", "*", "\U0001F600"}

func c10Strings(first string) []string {
	out := []string{first}
	for _, b := range c10StrChunks {
		out = append(out, first+b)
		for _, c := range []string{"a", "'", `\`, `"`} {
			out = append(out, first+b+c)
		}
	}
	return out
}

func (j *c10Job) runStrings(i int, c *run.Ctx) {
	var strs []string
	if i == len(c10StrChunks) {
		strs = []string{""}
	} else {
		strs = c10Strings(c10StrChunks[i])
	}
	for _, sv := range strs {
		// members: the string itself, near misses, the same text as a key, a number
		members := []interface{}{
			map[string]interface{}{"a": sv}, map[string]interface{}{"a": sv + "x"}, map[string]interface{}{"a": "x" + sv},
			map[string]interface{}{"a": strings.ReplaceAll(sv, `\`, "")}, map[string]interface{}{"b": sv}, map[string]interface{}{"a": 1.0},
			map[string]interface{}{"a": strings.ReplaceAll(sv, "'", `\'`)},
		}
		doc := map[string]interface{}{"c": members, "s": sv}
		docText := showVal(doc)
		type atom struct {
			q    *gen.Query
			text string
		}
		var atoms []atom
		for _, quote := range []byte{'\'', '"'} {
			lit := gen.QuoteLiteral(sv, quote)
			atoms = append(atoms,
				atom{gen.Cmp("==", gen.OpP(gen.P('@', gen.Name("a"))), gen.LitStr(sv)), "@.a==" + lit},
				atom{gen.Cmp("==", gen.LitStr(sv), gen.OpP(gen.P('@', gen.Name("a")))), lit + " == @.a"},
				atom{gen.Cmp("!=", gen.OpP(gen.P('@', gen.Name("a"))), gen.LitStr(sv)), "@.a != " + lit},
				atom{gen.Cmp("==", gen.OpP(gen.P('$', gen.Name("s"))), gen.LitStr(sv)), "$.s==" + lit},
				atom{gen.Cmp("==", gen.LitStr(sv), gen.LitStr(sv)), lit + "==" + lit},
			)
		}
		// the same string as a regular expression (quoted, slashes escaped): matches exactly
		// the members whose a contains it
		if !strings.Contains(sv, "\n") && !strings.HasSuffix(sv, `\`) {
			re := regexp.QuoteMeta(sv)
			atoms = append(atoms, atom{gen.Regex(gen.P('@', gen.Name("a")), re), "@.a=~/" + strings.ReplaceAll(re, "/", `\/`) + "/"})
			// fully anchored: matches exactly the members whose a equals it
			for _, anch := range [][2]string{{"^", "$"}, {`\A`, `\z`}, {"^", ""}, {"", "$"}} {
				are := anch[0] + re + anch[1]
				atoms = append(atoms, atom{gen.Regex(gen.P('@', gen.Name("a")), are), "@.a=~/" + strings.ReplaceAll(are, "/", `\/`) + "/"})
			}
		}
		for _, at := range atoms {
			c.Tick()
			text := "$.c[?(" + at.text + ")]"
			pr := impl.Parse(text, &j.env.Cfg)
			p := gen.P('$', gen.Name("c"), gen.Filter(at.q))
			if pr.F == nil {
				c.Violate(run.Violation{Sig: "string-literal-rejected:" + gen.QueryShape(at.q), Detail: fmt.Sprintf("%s rejected: %s %s %s", text, pr.ErrType, pr.ErrMsg, pr.Panic), Size: len(text),
					Case: map[string]interface{}{"path": text, "doc": docText, "mode": modeName[0], "ast": jsonRaw(p)}})
				continue
			}
			out := spec.Eval(p, doc, j.env.Model)
			res := impl.Call(pr.F, doc)
			c.Evals++
			c.Traces++
			c.States++
			c.Transitions += 2
			c.Outcome("string-literal/" + res.Key())
			if len(out.Nodes) > 0 {
				c.Nontrivial++
			}
			if ok, kind, detail := c01Judge(&out, res); !ok {
				c.Violate(run.Violation{
					Sig:    "string-literal-" + kind + ":" + gen.QueryShape(at.q),
					Detail: fmt.Sprintf("%s on %s: %s", text, docText, detail),
					Size:   len(text)*100 + len(docText),
					Case:   map[string]interface{}{"path": text, "doc": docText, "mode": modeName[0], "ast": jsonRaw(p)},
				})
			} else if strings.ContainsAny(sv, `'"\`) && len(out.Nodes) > 0 {
				c.Sample(map[string]interface{}{"path": text, "selects": show(res.Values)})
			}
		}
	}
}

func (j *c10Job) RunUnit(i int, c *run.Ctx) {
	if base := len(j.vals) * len(j.vals); i >= base+len(c10StrChunks)+1 {
		j.runNumbers(i-base-len(c10StrChunks)-1, c)
		return
	} else if i >= base {
		j.runStrings(i-base, c)
		return
	}
	va, vb := j.vals[i/len(j.vals)], j.vals[i%len(j.vals)]
	member := c10Obj(va, vb, "")
	for _, ra := range j.vals {
		for _, rb := range j.vals {
			nOdd := 0
			for _, v := range []string{va, vb, ra, rb} {
				if isOdd(v) {
					nOdd++
				}
			}
			if nOdd > 1 && !(isOdd(va) && isOdd(ra) && nOdd == 2) {
				continue // keep the product small: at most one odd spelling, or @.a and $.a both odd
			}
			// two members: the one under test and a plain sibling, so that per-member lists are used
			docText := c10Obj(ra, rb, `"c":[`+member+`,{"a":1,"b":"x"}]`)
			var docs [2]interface{}
			docs[modeFloat] = decodeDoc(docText, modeFloat)
			docs[modeNumber] = decodeDoc(docText, modeNumber)
			for _, q := range j.atoms {
				c.Tick()
				if nOdd > 0 && pathVsPathEq(q) {
					continue // the property restricts path==path to shortest spellings
				}
				text := "$.c[?(" + gen.RenderQuery(q, nil) + ")]"
				f, ok := j.fs[text]
				if !ok {
					pr := impl.Parse(text, &j.env.Cfg)
					f = pr.F
					j.fs[text] = f
					if f == nil {
						c.Violate(run.Violation{Sig: "parse-rejected:" + gen.QueryShape(q), Detail: text + " rejected: " + pr.ErrMsg + pr.Panic, Size: len(text),
							Case: map[string]interface{}{"path": text, "doc": "null", "mode": modeName[0]}})
					}
				}
				if f == nil {
					continue
				}
				p := gen.P('$', gen.Name("c"), gen.Filter(q))
				var results [2]impl.CallResult
				var outs [2]spec.Outcome
				for m := 0; m < 2; m++ {
					outs[m] = spec.Eval(p, docs[m], j.env.Model)
					results[m] = impl.Call(f, docs[m])
					c.Evals++
					c.Traces++
					c.States++
					c.Transitions += 2
					c.Outcome(fmt.Sprintf("%s/%s", modeName[m], results[m].Key()))
				}
				if outs[0].Unspec || outs[1].Unspec {
					c.Add("unspecified_skipped", 1)
					continue
				}
				if len(outs[0].Nodes) > 0 {
					c.Nontrivial++
				}
				for m := 0; m < 2; m++ {
					if ok, kind, detail := c01Judge(&outs[m], results[m]); !ok {
						c.Violate(run.Violation{
							Sig:    kind + ":" + modeName[m] + ":" + gen.QueryShape(q),
							Detail: fmt.Sprintf("%s on %s (%s): %s", text, docText, modeName[m], detail),
							Size:   len(text)*100 + len(docText),
							Case:   caseOfP("C10", p, text, docText, m, "funcs"),
						})
					}
				}
				// relational: both decodings select the same members (compared as positions)
				var masks [2]uint
				var maskOK [2]bool
				for m := 0; m < 2; m++ {
					members, _ := docs[m].(map[string]interface{})["c"].([]interface{})
					masks[m], maskOK[m] = maskOf(results[m].Values, members)
				}
				if results[0].ErrType != results[1].ErrType || masks[0] != masks[1] || !maskOK[0] || !maskOK[1] {
					c.Violate(run.Violation{
						Sig:    "decoding-differs:" + gen.QueryShape(q),
						Detail: fmt.Sprintf("%s on %s: float64 decoding gives %s %s, json.Number decoding gives %s %s", text, docText, show(results[0].Values), results[0].ErrType, show(results[1].Values), results[1].ErrType),
						Size:   len(text)*100 + len(docText),
						Case:   map[string]interface{}{"path": text, "doc": docText, "mode": "both", "ast": jsonRaw(p)},
					})
				} else if isOdd(va) && len(results[1].Values) > 0 && q.Kind == gen.QCmp {
					c.Sample(map[string]interface{}{"path": text, "doc": docText, "both_decodings_select": show(results[1].Values)})
				}
			}
		}
	}
}

func init() {
	run.Register(&run.Check{
		ID:    "C10",
		Level: "model_checking",
		Rule:  "every (atom, values of @.a, @.b, $.a, $.b, decoding): the filter is applied to a two-member array whose first member carries the values under test; distinct by (atom, document text, decoding); non-trivial = the model selects a member",
		Assumptions: []string{
			"type-strictness oracle = the reference model's comparison table (a literal of type T matches only values of type T, ordering only numbers, regex only strings, missing or mistyped -> no match, never an error)",
			"relational oracle: the json.Number decoding of the same JSON text selects the same members as the float64 decoding; number spellings other than Go's shortest ('1.0', '1e0', '100e-2', '2.000', '0.15e1') are used except where two paths are compared with == / !=",
		},
		Bounds: map[string]string{
			"quick":    "219 atoms x operand values from {absent,1,2,1.5,-1,\"a\",\"1\",true,false,null,{},[1],{\"a\":1},{\"x\":null},{\"y\":null},[null]} plus 5 odd number spellings, the two floats adjacent to 1 and three integers beyond int64 (2^63, 9999999999999999999, -2^63-1) for each of @.a, @.b, $.a, $.b (at most one odd spelling per document, or @.a and $.a both odd) x 2 decodings; plus string literals: every string of <=3 chunks (14-chunk alphabet with quotes, backslash, slash, space, newline, non-ASCII; third chunk from 4) in both quote styles, both operand orders, ==, !=, literal==literal, $-path==literal and as an escaped regular expression (plain, ^..$, \\A..\\z, ^.., ..$), against 7 near-miss members; plus 15 unusual spellings of a number literal in the path (-0, +1, 01, 1E+0, 0.1e1, 0x1p0, 1e-400, 30 digits, ...) in all six operators, both orders, against @.a, $.b and itself, over 15 member values, both decodings",
			"thorough": "same as quick (the space is enumerated completely in both tiers)",
		},
		New: newC10,
		Replay: func(cs map[string]interface{}) (bool, string) {
			if cs["mode"] == "both" {
				path, _ := cs["path"].(string)
				docText, _ := cs["doc"].(string)
				env := impl.NewEnv()
				pr := impl.Parse(path, &env.Cfg)
				if pr.F == nil {
					return false, "does not parse"
				}
				d0, d1 := decodeDoc(docText, modeFloat), decodeDoc(docText, modeNumber)
				r0 := impl.Call(pr.F, d0)
				r1 := impl.Call(pr.F, d1)
				m0, ok0 := maskOf(r0.Values, d0.(map[string]interface{})["c"].([]interface{}))
				m1, ok1 := maskOf(r1.Values, d1.(map[string]interface{})["c"].([]interface{}))
				return r0.ErrType != r1.ErrType || m0 != m1 || !ok0 || !ok1, fmt.Sprintf("float64: %s %s; json.Number: %s %s", show(r0.Values), r0.ErrType, show(r1.Values), r1.ErrType)
			}
			return replayProduct(cs, func(path string, p *gen.Path, doc interface{}, env *impl.Env) (bool, string) {
				pr := impl.Parse(path, &env.Cfg)
				if pr.F == nil {
					return true, "Parse rejected: " + pr.ErrMsg
				}
				out := spec.Eval(p, doc, env.Model)
				ok, _, detail := c01Judge(&out, impl.Call(pr.F, doc))
				return !ok, detail
			})
		},
	})
}
