package checks

import (
	"fmt"
	"strings"

	"verif/h/gen"
	"verif/h/impl"
	"verif/h/run"
)

// C18: equivalent spellings behave identically. Relational: canonical spelling vs every
// spelling that deviates from it at one (quick) or one or two (thorough) sites.

type c18Job struct {
	tier  string
	units []gen.Unit
	ds    *docSet
	env   *impl.Env
}

func newC18(tier string) run.Job {
	ls := []gen.Ladder{
		{Alpha: gen.SigmaFull(), Depth: 2, Funcs: gen.FuncSuffixes(), FuncDepth: 1},
		{Alpha: gen.SigmaMid(), Depth: 3, MinPrefix: 2},
		{Alpha: gen.ParenFilters(), Depth: 1},
		// an aggregate or a filter function after two steps (the value-group flag travels through the
		// parameter chain, also when the leading $ is omitted)
		{Alpha: gen.SigmaMid(), Depth: 1, MinPrefix: 2, Funcs: [][]string{{"cnt"}, {"g"}, {"f"}}, FuncDepth: 2},
	}
	spec := gen.DocSpec{MaxNodes: 4, Keys: gen.KAB, Scalars: gen.S3, MaxArr: 3}
	if tier == "thorough" {
		spec.Scalars = gen.S5
	}
	return &c18Job{tier: tier, units: unitsOf(ls), ds: newDocSet(spec, []int{modeFloat}), env: impl.NewEnv()}
}

func (j *c18Job) NumUnits() int { return len(j.units) }
func (j *c18Job) Describe(i int) map[string]interface{} {
	pre := gen.Render(&gen.Path{Root: '$', Steps: j.units[i].Prefix}, nil).Text
	return map[string]interface{}{"unit": i, "prefix": pre, "sig": "unit:" + pre}
}

// errStep extracts the quoted step text and the remaining fields of a runtime error message.
func errStep(typ, msg string) (text, rest string) {
	switch typ {
	case "ErrorMemberNotExist":
		return strings.TrimSuffix(strings.TrimPrefix(msg, "member did not exist (path="), ")"), ""
	case "ErrorTypeUnmatched":
		i := strings.Index(msg, ", path=")
		if i < 0 {
			return msg, ""
		}
		return strings.TrimSuffix(msg[i+len(", path="):], ")"), msg[:i]
	case "ErrorFunctionFailed":
		s := strings.TrimPrefix(msg, "function failed (function=")
		i := strings.Index(s, ", error=")
		if i < 0 {
			return s, ""
		}
		return s[:i], s[i:]
	}
	return msg, ""
}

func posSet(pos []string, text string) map[int]bool {
	m := map[int]bool{}
	for i, p := range pos {
		if p == text {
			m[i] = true
		}
	}
	return m
}

// c18Same compares the behaviour of two spellings on one document.
func c18Same(a, b impl.CallResult, posA, posB []string) (ok bool, detail string) {
	if a.Panic != "" || b.Panic != "" {
		return false, "panic: " + a.Panic + b.Panic
	}
	if a.ErrType != b.ErrType {
		return false, fmt.Sprintf("canonical: %s %s %q; variant: %s %s %q", show(a.Values), a.ErrType, a.ErrMsg, show(b.Values), b.ErrType, b.ErrMsg)
	}
	if a.ErrType == "" {
		if !sameValues(a.Values, b.Values) {
			return false, fmt.Sprintf("canonical returns %s, variant returns %s", show(a.Values), show(b.Values))
		}
		return true, ""
	}
	ta, ra := errStep(a.ErrType, a.ErrMsg)
	tb, rb := errStep(b.ErrType, b.ErrMsg)
	if ra != rb {
		return false, fmt.Sprintf("canonical error %q, variant error %q", a.ErrMsg, b.ErrMsg)
	}
	sa, sb := posSet(posA, ta), posSet(posB, tb)
	for i := range sa {
		if sb[i] {
			return true, ""
		}
	}
	return false, fmt.Sprintf("errors name different steps: canonical %q (step %v of %q), variant %q (step %v of %q)", a.ErrMsg, keys(sa), posA, b.ErrMsg, keys(sb), posB)
}

func keys(m map[int]bool) []int {
	var out []int
	for k := range m {
		out = append(out, k)
	}
	return out
}

// spellings enumerates the deviating spellings of a path: one site, or up to two.
func spellings(p *gen.Path, two bool) []gen.Spelling {
	base := gen.Render(p, nil)
	var out []gen.Spelling
	for i, s := range base.Sites {
		for v := 1; v < s.N; v++ {
			sp := gen.Spelling{i: v}
			out = append(out, sp)
			if two {
				r1 := gen.Render(p, sp)
				for k := i + 1; k < len(r1.Sites); k++ {
					for w := 1; w < r1.Sites[k].N; w++ {
						out = append(out, gen.Spelling{i: v, k: w})
					}
				}
			}
		}
	}
	return out
}

func spellingSig(p *gen.Path, sp gen.Spelling) string {
	// kinds of the deviating sites (site numbering follows the deviating rendering prefix)
	var ks []string
	cur := gen.Spelling{}
	for len(cur) < len(sp) {
		r := gen.Render(p, cur)
		next := -1
		for i := range r.Sites {
			if _, in := sp[i]; in {
				if _, done := cur[i]; !done {
					next = i
					break
				}
			}
		}
		if next < 0 {
			break
		}
		ks = append(ks, fmt.Sprintf("%s#%d", r.Sites[next].Kind, sp[next]))
		cur[next] = sp[next]
	}
	return strings.Join(ks, "+")
}

func (j *c18Job) RunUnit(i int, c *run.Ctx) {
	u := j.units[i]
	two := j.tier == "thorough"
	m := modeFloat
	for _, p := range u.Paths() {
		base := gen.Render(p, nil)
		pb := impl.Parse(base.Text, &j.env.Cfg)
		if pb.F == nil {
			c.Add("paths_rejected", 1)
			continue
		}
		// canonical results once per document
		canon := make([]impl.CallResult, j.ds.n())
		for di := range canon {
			c.Tick()
			canon[di] = impl.Call(pb.F, j.ds.docs[m][di])
			j.ds.restore(m, di)
		}
		for _, sp := range spellings(p, two) {
			r := gen.Render(p, sp)
			if r.Text == base.Text {
				continue
			}
			pv := impl.Parse(r.Text, &j.env.Cfg)
			c.Add("spellings", 1)
			if pv.F == nil {
				c.Violate(run.Violation{
					Sig:    "variant-rejected:" + spellingSig(p, sp),
					Detail: fmt.Sprintf("%q parses but its spelling %q is rejected: %s %s %s", base.Text, r.Text, pv.ErrType, pv.ErrMsg, pv.Panic),
					Size:   len(r.Text),
					Case:   map[string]interface{}{"path": base.Text, "variant": r.Text, "doc": "null", "posA": base.Pos, "posB": r.Pos},
				})
				continue
			}
			// accessor mode: the variant must wrap exactly what the canonical spelling wraps
			if _, rootOmitted := sp[rootSite(base)]; rootOmitted && rootSite(base) >= 0 {
				pa, va := impl.Parse(base.Text, &j.env.CfgAcc), impl.Parse(r.Text, &j.env.CfgAcc)
				if pa.F != nil && va.F != nil {
					for di := 0; di < j.ds.n(); di++ {
						c.Tick()
						ra, rv := impl.Call(pa.F, j.ds.docs[m][di]), impl.Call(va.F, j.ds.docs[m][di])
						c.Evals++
						ua, oka := impl.Unwrap(ra.Values)
						uv, okv := impl.Unwrap(rv.Values)
						same := ra.ErrType == rv.ErrType && oka == okv && (ra.ErrType != "" || sameValues(ua, uv))
						if !same {
							c.Violate(run.Violation{
								Sig:    "accessor-differs:" + spellingSig(p, sp) + ":" + gen.Shape(p),
								Detail: fmt.Sprintf("accessor mode: %q returns %s (accessors: %v) %s, its spelling %q returns %s (accessors: %v) %s on %s", base.Text, show(ua), oka, ra.ErrType, r.Text, show(rv.Values), okv, rv.ErrType, j.ds.text[di]),
								Size:   len(r.Text)*100 + len(j.ds.text[di]),
								Case:   map[string]interface{}{"path": base.Text, "variant": r.Text, "doc": j.ds.text[di], "posA": base.Pos, "posB": r.Pos, "accessor": true},
							})
							break
						}
					}
				}
			}
			for di := 0; di < j.ds.n(); di++ {
				c.Tick()
				res := impl.Call(pv.F, j.ds.docs[m][di])
				j.ds.restore(m, di)
				c.Evals++
				c.Outcome(res.Key())
				if res.ErrType == "" {
					c.Nontrivial++
				}
				ok, detail := c18Same(canon[di], res, base.Pos, r.Pos)
				if ok {
					if res.ErrType == "ErrorTypeUnmatched" && di%50 == 0 {
						c.Sample(map[string]interface{}{"canonical": base.Text, "variant": r.Text, "doc": j.ds.text[di], "both": res.ErrMsg})
					}
					continue
				}
				// fresh pair decides
				env := impl.NewEnv()
				fa, fb := impl.Parse(base.Text, &env.Cfg), impl.Parse(r.Text, &env.Cfg)
				if fa.F != nil && fb.F != nil {
					if fok, _ := c18Same(impl.Call(fa.F, gen.Clone(j.ds.pristine[m][di])), impl.Call(fb.F, gen.Clone(j.ds.pristine[m][di])), base.Pos, r.Pos); fok {
						c.Add("history_dependence_seen", 1)
						continue
					}
				}
				c.Violate(run.Violation{
					Sig:    "differs:" + spellingSig(p, sp) + ":" + gen.Shape(p),
					Detail: fmt.Sprintf("%q vs %q on %s: %s", base.Text, r.Text, j.ds.text[di], detail),
					Size:   len(r.Text)*100 + len(j.ds.text[di]),
					Case:   map[string]interface{}{"path": base.Text, "variant": r.Text, "doc": j.ds.text[di], "posA": base.Pos, "posB": r.Pos},
				})
			}
		}
	}
}

// rootSite returns the index of the "leading $ omitted" site of a rendering (-1 if none).
func rootSite(r gen.Rendered) int {
	for i, s := range r.Sites {
		if s.Kind == "root" {
			return i
		}
	}
	return -1
}

func strList(v interface{}) []string {
	var out []string
	if l, ok := v.([]interface{}); ok {
		for _, x := range l {
			s, _ := x.(string)
			out = append(out, s)
		}
	}
	return out
}

func init() {
	run.Register(&run.Check{
		ID:    "C18",
		Level: "exploration",
		Rule:  "every (path AST, deviating spelling, document): the canonical rendering and the variant are both parsed and evaluated; distinct by (variant text, document); non-trivial = the variant succeeds. Sites: leading/trailing space, space after [ and before ], around commas, colons, comparison and logical operators, after !, inside ?( ) and ( ), quote style of every name and string literal, +/leading zeros on every integer, .x vs ['x'] vs [\"x\"], .* vs [*], omitted leading $",
		Assumptions: []string{
			"spellings that omit the leading $ are additionally compared in accessor mode (same wrapping)",
			"relational oracle: same values, or errors of the same type whose quoted step text maps to the same step index in both spellings (expected/found parts equal)",
		},
		Bounds: map[string]string{
			"quick":    "paths of <=2 steps over the 50-step alphabet (+ functions after <=1 step) and 3 steps over the 16-step alphabet; every spelling deviating at ONE site; every document of <=4 nodes over scalars {1,\"a\",null}",
			"thorough": "same paths; every spelling deviating at ONE or TWO sites; documents over scalars {1,2,\"a\",true,null}",
		},
		New: newC18,
		Replay: func(cs map[string]interface{}) (bool, string) {
			a, _ := cs["path"].(string)
			b, _ := cs["variant"].(string)
			docText, _ := cs["doc"].(string)
			env := impl.NewEnv()
			if cs["accessor"] == true {
				pa, va := impl.Parse(a, &env.CfgAcc), impl.Parse(b, &env.CfgAcc)
				if pa.F == nil || va.F == nil {
					return pa.F != nil, "variant rejected in accessor mode"
				}
				ra, rv := impl.Call(pa.F, decodeDoc(docText, modeFloat)), impl.Call(va.F, decodeDoc(docText, modeFloat))
				ua, oka := impl.Unwrap(ra.Values)
				uv, okv := impl.Unwrap(rv.Values)
				same := ra.ErrType == rv.ErrType && oka == okv && (ra.ErrType != "" || sameValues(ua, uv))
				return !same, fmt.Sprintf("canonical: %s accessors=%v; variant: %s accessors=%v", show(ua), oka, show(rv.Values), okv)
			}
			fa, fb := impl.Parse(a, &env.Cfg), impl.Parse(b, &env.Cfg)
			if fa.F == nil {
				return false, "canonical does not parse"
			}
			if fb.F == nil {
				return true, "variant rejected: " + fb.ErrMsg + fb.Panic
			}
			ok, detail := c18Same(impl.Call(fa.F, decodeDoc(docText, modeFloat)), impl.Call(fb.F, decodeDoc(docText, modeFloat)), strList(cs["posA"]), strList(cs["posB"]))
			return !ok, detail
		},
	})
}
