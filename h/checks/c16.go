package checks

import (
	"fmt"
	"regexp"
	"strings"
	"unicode/utf16"

	"verif/h/gen"
	"verif/h/impl"
	"verif/h/run"
)

// C16: every object member is addressable; notations are equivalent. Oracle: direct map lookup.

var c16Chunks = []string{
	"a", "B", "0", "-", "_", " ", "'", `"`, `\`, "/", ".", "[", "]", "(", ")", "*", "$", "@", "?", ",", ":", "=", "!", "<", "~",
	"\x00", "\x1f", "\x7f", "\n", "\u00e9", "\uffff", "\U0001F600",
	`\n`, "\\u0041", `\ud83d`, `\ude00`, // escape-like texts taken literally as key characters
	"&", "|", ">", "#", "%",
	"\ufffd",           // also reachable through lone-surrogate escapes
	"\u3000", "\u00a0", // Unicode blanks (never the same as an ASCII space)
}

// c16Core: the sub-alphabet used for longer keys.
var c16Core = []string{"a", "'", `"`, `\`, ".", "[", "]", "*", " ", "\n", "é", "\U0001F600", `\n`, "\\u0041", "(", ")"}

func c16Keys(tier string) []string {
	seen := map[string]bool{}
	var out []string
	add := func(k string) {
		if !seen[k] {
			seen[k] = true
			out = append(out, k)
		}
	}
	var rec func(cur string, alpha []string, depth int)
	rec = func(cur string, alpha []string, depth int) {
		add(cur)
		if depth == 0 {
			return
		}
		for _, c := range alpha {
			rec(cur+c, alpha, depth-1)
		}
	}
	rec("", c16Chunks, 3)
	if tier == "thorough" {
		rec("", c16Core, 4)
		rec("", c16Core[:8], 5)
	}
	// long keys built by repetition (12 chunks)
	for _, c := range c16Chunks {
		add(strings.Repeat(c, 12))
		add(strings.Repeat("a"+c, 6))
	}
	return out
}

// c16Spellings returns the bracket/dot spellings of a key as path fragments (without root).
func c16Spellings(k string) map[string]string {
	sp := map[string]string{
		"sq": "[" + gen.QuoteName(k, '\'') + "]",
		"dq": "[" + gen.QuoteName(k, '"') + "]",
	}
	// every character as a \uXXXX escape (surrogate pairs beyond the BMP)
	var sb strings.Builder
	for _, r := range k {
		if r > 0xffff {
			r1, r2 := utf16.EncodeRune(r)
			fmt.Fprintf(&sb, `\u%04x\u%04x`, r1, r2)
		} else {
			fmt.Fprintf(&sb, `\u%04X`, r)
		}
	}
	sp["sq-unicode"] = "['" + sb.String() + "']"
	sp["dq-unicode"] = `["` + sb.String() + `"]`
	if gen.DotRepresentable(k) {
		sp["dot"] = "." + gen.DotEscape(k)
	}
	if strings.ContainsRune(k, 0xfffd) {
		// every U+FFFD written as a lone surrogate escape (JSON decoding turns it into U+FFFD),
		// every other character as a \uXXXX escape, so that a lone surrogate is directly followed by
		// another escape
		for name, lone := range map[string]string{"sq-lone-high": `\ud834`, "dq-lone-low": `\udd1e`} {
			var lb strings.Builder
			for _, r := range k {
				switch {
				case r == 0xfffd:
					lb.WriteString(lone)
				case r > 0xffff:
					r1, r2 := utf16.EncodeRune(r)
					fmt.Fprintf(&lb, `\u%04x\u%04x`, r1, r2)
				default:
					fmt.Fprintf(&lb, `\u%04X`, r)
				}
			}
			if name[0] == 's' {
				sp[name] = "['" + lb.String() + "']"
			} else {
				sp[name] = `["` + lb.String() + `"]`
			}
		}
	}
	return sp
}

// nearMisses: sibling keys that differ from k only by escape characters.
func nearMisses(k string) []string {
	cands := []string{
		k + "'", k + `"`, `\` + k, k + `\`, strings.ReplaceAll(k, `\`, ""), strings.ReplaceAll(k, `\`, `\\`),
		strings.ReplaceAll(k, `\n`, "\n"), strings.ReplaceAll(k, "\n", `\n`), strings.ReplaceAll(k, "\\u0041", "A"),
		k + " ", " " + k, strings.ReplaceAll(k, "'", `\'`), strings.ReplaceAll(k, `"`, `\"`), strings.ToUpper(k), k + "\x00",
		strings.ReplaceAll(k, `\ud83d`, "�"), strings.ReplaceAll(k, "é", "é"), "'" + k + "'", `"` + k + `"`,
	}
	seen := map[string]bool{k: true}
	var out []string
	for _, c := range cands {
		if !seen[c] {
			seen[c] = true
			out = append(out, c)
		}
	}
	return out
}

// a filter string literal drops the backslash of every escape (jsonpath_parser.go unescape)
var c16LiteralRegex = regexp.MustCompile(`\\(.)`)

type c16Job struct {
	keys []string
	env  *impl.Env
}

const c16Chunk = 32

func (j *c16Job) NumUnits() int { return (len(j.keys) + c16Chunk - 1) / c16Chunk }
func (j *c16Job) Describe(i int) map[string]interface{} {
	return map[string]interface{}{"unit": i, "first_key": fmt.Sprintf("%q", j.keys[i*c16Chunk]), "sig": fmt.Sprintf("c16unit:%d", i)}
}

type c16Case struct {
	pos, spelling, path string
	doc                 interface{}
	want                []interface{}
}

// c16Cases builds every (position, spelling, sibling set) case of one key.
func c16Cases(k string) []c16Case {
	var out []c16Case
	target := "TARGET"
	mk := func(withSiblings bool) map[string]interface{} {
		m := map[string]interface{}{k: target}
		if withSiblings {
			for i, s := range nearMisses(k) {
				m[s] = float64(i)
			}
		}
		return m
	}
	for name, frag := range c16Spellings(k) {
		for _, sib := range []bool{false, true} {
			sfx := ""
			if sib {
				sfx = "+siblings"
			}
			// at the root
			out = append(out, c16Case{"root" + sfx, name, "$" + frag, mk(sib), []interface{}{target}})
			// after recursive descent (the key occurs at two depths)
			inner := mk(sib)
			outer := map[string]interface{}{"w": inner}
			rfrag := frag
			if name == "dot" {
				rfrag = frag[1:] // "..name": the recursive operator supplies the dots
			}
			out = append(out, c16Case{"recursive" + sfx, name, "$.." + rfrag, outer, []interface{}{target}})
			// as a filter operand: selects exactly the member that has the key with the target value
			m1, m2 := mk(sib), map[string]interface{}{}
			for _, s := range nearMisses(k) {
				m2[s] = target
			}
			out = append(out, c16Case{"filter" + sfx, name, "$[?(@" + frag + "=='TARGET')]", []interface{}{m2, m1}, []interface{}{m1}})
			// the same raw text as a quoted name and as a filter string literal in one path (the two
			// are decoded by different rules: a literal only drops the backslashes), both orders
			if !sib && frag[0] == '[' && strings.Contains(frag, `\`) {
				q, body := frag[1:2], frag[2:len(frag)-2]
				lit := c16LiteralRegex.ReplaceAllString(body, "$1")
				l1, l2 := map[string]interface{}{k: lit}, map[string]interface{}{}
				for _, s := range nearMisses(k) {
					l2[s] = lit
				}
				members := []interface{}{l2, l1}
				if lit != k {
					members = append(members, map[string]interface{}{k: k}) // holds the NAME decoding: not selected
				}
				out = append(out, c16Case{"filter-literal", name, "$[?(@" + frag + "==" + q + body + q + ")]", members, []interface{}{l1}})
				out = append(out, c16Case{"literal-filter", name, "$[?(" + q + body + q + "==@" + frag + ")]", members, []interface{}{l1}})
			}
			// after another step, followed by another step
			out = append(out, c16Case{"middle" + sfx, name, "$.w" + frag + "[0]", map[string]interface{}{"w": func() map[string]interface{} {
				m := mk(sib)
				m[k] = []interface{}{target}
				return m
			}()}, []interface{}{target}})
		}
	}
	return out
}

func c16Judge(cs c16Case, env *impl.Env) (ok bool, kind, detail string) {
	pr := impl.Parse(cs.path, &env.Cfg)
	if pr.F == nil {
		return false, "rejected", fmt.Sprintf("Parse rejected the selector: %s %s %s", pr.ErrType, pr.ErrMsg, pr.Panic)
	}
	res := impl.Call(pr.F, cs.doc)
	if res.Panic != "" {
		return false, "panic", "panic: " + res.Panic
	}
	if res.ErrType != "" {
		return false, "not-found", fmt.Sprintf("the member was not found: %s %s", res.ErrType, res.ErrMsg)
	}
	if !sameValues(res.Values, cs.want) {
		return false, "wrong-member", fmt.Sprintf("returned %s, direct lookup gives %s", show(res.Values), show(cs.want))
	}
	return true, "", ""
}

func (j *c16Job) RunUnit(i int, c *run.Ctx) {
	lo, hi := i*c16Chunk, (i+1)*c16Chunk
	if hi > len(j.keys) {
		hi = len(j.keys)
	}
	for _, k := range j.keys[lo:hi] {
		for _, cs := range c16Cases(k) {
			c.Tick()
			c.Evals++
			c.Nontrivial++
			ok, kind, detail := c16Judge(cs, j.env)
			c.Outcome(cs.pos + "/" + cs.spelling)
			if ok {
				if strings.ContainsAny(k, `\'"`) && cs.spelling == "dot" {
					c.Sample(map[string]interface{}{"key": k, "path": cs.path, "position": cs.pos})
				}
				continue
			}
			c.Violate(run.Violation{
				Sig:    kind + ":" + cs.spelling + ":" + strings.TrimSuffix(cs.pos, "+siblings") + ":" + c16Class(k),
				Detail: fmt.Sprintf("key %q spelled %s at %s: %s", k, cs.path, cs.pos, detail),
				Size:   len(k)*100 + len(cs.path),
				Case:   map[string]interface{}{"key": k, "path": cs.path, "position": cs.pos, "spelling": cs.spelling},
			})
		}
	}
}

// c16Class names the character classes occurring in a key (violation signature).
func c16Class(k string) string {
	var cl []string
	has := func(s string) bool { return strings.Contains(k, s) }
	if k == "" {
		return "empty"
	}
	if has(`\`) {
		cl = append(cl, "backslash")
	}
	if has("'") {
		cl = append(cl, "squote")
	}
	if has(`"`) {
		cl = append(cl, "dquote")
	}
	for _, r := range k {
		if r < 0x20 || r == 0x7f {
			cl = append(cl, "control")
			break
		}
	}
	for _, r := range k {
		if r > 0x7f {
			cl = append(cl, "non-ascii")
			break
		}
	}
	if len(cl) == 0 {
		return "plain"
	}
	return strings.Join(cl, "+")
}

func init() {
	run.Register(&run.Check{
		ID:    "C16",
		Level: "exploration",
		Rule:  "every (key, spelling, position, with/without near-miss siblings) is a distinct case and non-trivial (the key exists, exactly its value must come back); spellings: ['k'], [\"k\"] with minimal JSON escaping, both with every character as \\uXXXX, dot notation with every symbol escaped (non-empty keys without control characters), lone-surrogate escapes for U+FFFD; positions: root, after .., filter operand, between two steps, and (spellings with a backslash) compared inside a filter with a string literal of the same raw text, both orders",
		Assumptions: []string{
			"oracle = direct Go map lookup; keys are valid UTF-8 (a decoded JSON document cannot hold anything else)",
			"near-miss siblings: the key with/without each escape character (added/removed backslashes, quotes, literal vs real newline, \\u0041 vs A, trailing/leading space, case, decomposed accent)",
		},
		Bounds: map[string]string{
			"quick":    "all keys of <=3 chunks over the 41-chunk alphabet (70k keys), 12-chunk repetitions, the empty key",
			"thorough": "quick plus all keys of <=4 chunks over a 16-chunk core and <=5 chunks over an 8-chunk core",
		},
		New: func(tier string) run.Job { return &c16Job{keys: c16Keys(tier), env: impl.NewEnv()} },
		Replay: func(cs map[string]interface{}) (bool, string) {
			k, _ := cs["key"].(string)
			path, _ := cs["path"].(string)
			pos, _ := cs["position"].(string)
			sp, _ := cs["spelling"].(string)
			for _, cc := range c16Cases(k) {
				if cc.path == path && cc.pos == pos && cc.spelling == sp {
					ok, _, detail := c16Judge(cc, impl.NewEnv())
					return !ok, detail
				}
			}
			return false, "case not found"
		},
	})
}
