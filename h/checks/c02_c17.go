package checks

import (
	"fmt"
	"os"
	"strconv"
	"strings"
	"syscall"
	"unicode/utf8"

	"github.com/AsaiYusuke/jsonpath"

	"verif/h/gen"
	"verif/h/impl"
	"verif/h/pegi"
	"verif/h/pmodel"
	"verif/h/run"
)

// C02 (Parse is total) and C17 (accepted language = published grammar, exact positions) run
// over the same exhaustively enumerated string sets. C17 additionally interprets
// /repo/jsonpath.peg itself (pegi) and an action model (pmodel) to predict every outcome.

// repoDir is the tree under test: /repo, unless VERIF_REPO points the whole run (build and
// files) at a scratch copy (used only for background runs and seeded changes, never by the
// registered commands).
var repoDir = func() string {
	if d := os.Getenv("VERIF_REPO"); d != "" {
		return d
	}
	return "/repo"
}()

type strUnit struct {
	kind string // soup, sentences, pumped, suite
	a, b int
}

type stringsJob struct {
	id        string
	tier      string
	withModel bool
	units     []strUnit
	soup      []gen.SoupUnit
	sentences []string
	pumped    []string
	suite     []string
	env       *impl.Env
	model     *pmodel.Model
	mcfg      pmodel.Config
	probeDocs []interface{}
	loadErr   string
	probe     func(s, family string) bool // enumeration-only mode (DescribeSub)
}

const sentenceChunk = 4

func sentenceSet(tier string) []string {
	seen := map[string]bool{}
	var out []string
	add := func(p *gen.Path) {
		t := gen.Render(p, nil).Text
		if !seen[t] {
			seen[t] = true
			out = append(out, t)
		}
	}
	l := gen.Ladder{Alpha: gen.SigmaFull(), Depth: 2, Funcs: gen.FuncSuffixes(), FuncDepth: 1}
	for _, u := range l.Units() {
		for _, p := range u.Paths() {
			add(p)
		}
	}
	for _, q := range gen.Atoms() {
		add(gen.P('$', gen.Filter(q)))
	}
	for _, s := range gen.SigmaFuncFilters() {
		add(gen.P('$', s))
		add(gen.P('$', gen.Name("a"), s).F("g"))
	}
	// operand paths of 0..2 steps followed by 0..2 functions of each kind, on either side
	var opPaths []*gen.Path
	stepsets := [][]gen.Step{{}, {gen.Name("a")}, {gen.Wild()}, {gen.Name("a"), gen.Union(gen.Idx(0))}, {gen.Rec(gen.Name("a"))},
		// every bracket form as the (only) group step of an operand: value-group operands are refused in comparisons
		{gen.Union(gen.Slice2(gen.N(0), gen.N(2)))}, {gen.Union(gen.Slice(gen.Om(), gen.Om(), gen.N(-1)))}, {gen.Union(gen.Slice(gen.N(2), gen.N(0), gen.N(-1)))},
		{gen.Union(gen.Slice(gen.Om(), gen.Om(), gen.N(0)))}, {gen.Union(gen.Idx(0), gen.Idx(1))}, {gen.BWild()}, {gen.Multi("a", "b")},
		{gen.Filter(gen.Exists(gen.P('@', gen.Name("a"))))}, {gen.Rec(gen.Union(gen.Idx(0)))}, {gen.Name("a"), gen.Union(gen.Idx(-1))}, {gen.Union(gen.Slice(gen.N(-1), gen.Om(), gen.N(-1))), gen.Name("b")}}
	fseqs := [][]string{{}, {"f"}, {"g"}, {"f", "g"}, {"g", "f"}, {"g", "g"}, {"zz"}}
	for _, root := range []byte{'@', '$'} {
		for _, ss := range stepsets {
			for _, fs := range fseqs {
				opPaths = append(opPaths, gen.P(root, ss...).F(fs...))
			}
		}
	}
	for _, op := range opPaths {
		add(gen.P('$', gen.Filter(gen.Exists(op))))
		add(gen.P('$', gen.Filter(gen.NotExists(op))))
		for _, o := range []string{"==", "<", ">="} {
			add(gen.P('$', gen.Filter(gen.Cmp(o, gen.OpP(op), gen.LitNum(1)))))
			add(gen.P('$', gen.Filter(gen.Cmp(o, gen.LitNum(1), gen.OpP(op)))))
		}
		add(gen.P('$', gen.Filter(gen.Regex(op, "a"))))
	}
	pairs := gen.Pairs(gen.ReducedAtoms())
	if tier != "thorough" {
		pairs = gen.Pairs(gen.ReducedAtoms()[:10])
	}
	for _, cb := range pairs {
		add(gen.P('$', gen.Filter(cb.Q)))
	}
	for _, cb := range gen.Triples(gen.TinyAtoms()[:3]) {
		add(gen.P('$', gen.Filter(cb.Q)))
	}
	if tier == "thorough" {
		l3 := gen.Ladder{Alpha: gen.SigmaMid(), Depth: 3, MinPrefix: 2}
		for _, u := range l3.Units() {
			for _, p := range u.Paths() {
				add(p)
			}
		}
	}
	// a few hand-written sentences with spaces / script / odd literals
	out = append(out, `$[(@.length-1)]`, `$[ 0 , 1 ]`, `$[?( @.a == 'x' )]`, `$[?(@.a=~/[/)]`, `$[?(@.a==1.5e3)]`, `$['aA']`, `$["a\"b"]`, `a.b`, `*`, `['a']`, `$.a\.b`,
		`$[?(@.a == True)]`, `$[?(@.a == NULL)]`, `$[?(@.a.b.c == $.x.y)]`, `$..[?(@.a)]..b`, `$[1:2:3,4,*]`, `$[?(@.a == "a\"b")]`,
		`[?(@.a)]`, `[?(@.a == 1)].b`, `[?(@.a[?(@.b)])]`, `[?(1 == @.a)]`, `..a`, `[0].a`)
	return out
}

func newStringsJob(id, tier string, withModel bool) *stringsJob {
	j := &stringsJob{id: id, tier: tier, withModel: withModel, env: impl.NewEnv()}
	j.soup = gen.SoupUnits()
	j.sentences = sentenceSet(tier)
	j.pumped = gen.Pumped(256)
	if sp, err := gen.SuitePaths(repoDir + "/test_jsonpath_test.go"); err == nil {
		j.suite = sp
	}
	for i := range j.soup {
		j.units = append(j.units, strUnit{"soup", i, 0})
	}
	for i := 0; i < len(j.sentences); i += sentenceChunk {
		j.units = append(j.units, strUnit{"sentences", i, min(i+sentenceChunk, len(j.sentences))})
	}
	for i := 0; i < len(j.pumped); i += 64 {
		j.units = append(j.units, strUnit{"pumped", i, min(i+64, len(j.pumped))})
	}
	for i := 0; i < len(j.suite); i += 32 {
		j.units = append(j.units, strUnit{"suite", i, min(i+32, len(j.suite))})
	}
	j.mcfg = pmodel.Config{Filter: map[string]bool{}, Aggregate: map[string]bool{}}
	for k := range j.env.Model.Filter {
		j.mcfg.Filter[k] = true
	}
	for k := range j.env.Model.Aggregate {
		j.mcfg.Aggregate[k] = true
	}
	j.probeDocs = []interface{}{
		decodeDoc(`{"a":[{"a":1,"b":"a"},{"a":2}],"b":1}`, modeFloat),
		decodeDoc(`[1,"a",null,{"a":{"a":1}},[1,2]]`, modeFloat),
		nil,
	}
	if withModel {
		src, err := os.ReadFile(repoDir + "/jsonpath.peg")
		if err != nil {
			j.loadErr = err.Error()
		} else if g, err := pegi.Load(string(src)); err != nil {
			j.loadErr = err.Error()
		} else {
			j.model = pmodel.New(g)
		}
	}
	return j
}

func (j *stringsJob) NumUnits() int { return len(j.units) }

func (j *stringsJob) Describe(i int) map[string]interface{} {
	u := j.units[i]
	d := map[string]interface{}{"unit": i, "kind": u.kind, "sig": fmt.Sprintf("strunit:%s:%d", u.kind, u.a)}
	// a crash is attributed to a unit; list its strings so that the culprit can be bisected by hand
	if u.kind == "sentences" {
		d["strings"] = j.sentences[u.a:u.b]
	}
	if u.kind == "soup" {
		su := j.soup[u.a]
		pre := gen.Contexts[su.Ctx][0]
		for _, t := range su.Prefix {
			pre += gen.Tokens[t]
		}
		d["prefix"] = pre
	}
	return d
}

func (j *stringsJob) soupLen() int {
	if j.tier == "thorough" {
		return 5
	}
	return 4
}

// slowParseCPUSeconds: CPU time (not wall time: immune to load and suspension) above which a
// single Parse of a path of at most 256 characters is reported as "not bounded".
const slowParseCPUSeconds = 5.0

func cpuSeconds() float64 {
	var ru syscall.Rusage
	if syscall.Getrusage(syscall.RUSAGE_SELF, &ru) != nil {
		return 0
	}
	return float64(ru.Utime.Sec+ru.Stime.Sec) + float64(ru.Utime.Usec+ru.Stime.Usec)/1e6
}

// judgeC02 checks the totality invariant of one Parse outcome.
// c02AccessorOnly returns a Config on which no function was ever registered (its function tables
// are nil) with accessor mode on.
func c02AccessorOnly() jsonpath.Config {
	var c jsonpath.Config
	c.SetAccessorMode()
	return c
}

func judgeC02(pr impl.ParseResult) (ok bool, kind, detail string) {
	switch {
	case pr.Panic != "":
		return false, "panic", "Parse panicked: " + pr.Panic
	case pr.F != nil && pr.Err != nil:
		return false, "function-and-error", "Parse returned a non-nil function together with error " + pr.ErrMsg
	case pr.F == nil && pr.Err == nil:
		return false, "nil-nil", "Parse returned (nil, nil)"
	case pr.F == nil && !impl.IsSyntaxErrType(pr.ErrType):
		return false, "undocumented-error", "Parse returned an error of undocumented type " + pr.ErrType + ": " + pr.ErrMsg
	}
	return true, "", ""
}

func classOf(s string) string {
	switch {
	case !utf8.ValidString(s):
		return "invalid-utf8"
	case len(s) != utf8.RuneCountInString(s):
		return "non-ascii"
	}
	return "ascii"
}

// tokenShape abstracts a string to its character classes (violation signature).
func tokenShape(s string) string {
	var sb strings.Builder
	last := byte(0)
	for _, r := range s {
		var c byte
		switch {
		case r >= 'a' && r <= 'z' || r >= 'A' && r <= 'Z':
			c = 'a'
		case r >= '0' && r <= '9':
			c = '1'
		case r > 0x7f:
			c = 'U'
		default:
			c = byte(r)
		}
		if c == last && (c == 'a' || c == '1' || c == 'U' || c == ' ') {
			continue
		}
		sb.WriteByte(c)
		last = c
	}
	t := sb.String()
	if len(t) > 40 {
		t = t[:40]
	}
	return t
}

// DescribeSub names the tick-th string of a unit (a worker crash is attributed to it).
func (j *stringsJob) DescribeSub(unit, tick int) map[string]interface{} {
	var found map[string]interface{}
	n := 0
	saved := j.probe
	j.probe = func(s, family string) bool {
		n++
		if n == tick {
			found = strCase(s, "either", family)
			found["sig"] = tokenShape(s)
		}
		return true
	}
	j.RunUnit(unit, nil)
	j.probe = saved
	return found
}

func (j *stringsJob) one(c *run.Ctx, s string, family string) {
	if j.probe != nil {
		j.probe(s, family)
		return
	}
	if c.Expired() {
		c.Cut = true // tier deadline: the rest of this unit is not explored (reported as not exhaustive)
		return
	}
	c.Tick()
	nCfg := 2
	if !j.withModel {
		nCfg = 3 // C02 also calls Parse with two Config arguments (the signature is variadic)
	}
	for ci := 0; ci < nCfg; ci++ {
		var cfg *jsonpath.Config
		cfgName := "none"
		mcfg := pmodel.Config{}
		if ci == 1 {
			cfg, cfgName, mcfg = &j.env.CfgAcc, "funcs+accessor", j.mcfg
		}
		cpu0 := cpuSeconds()
		var pr impl.ParseResult
		if ci == 2 {
			cfgName = "two-configs"
			pr = impl.ParseN(s, c02AccessorOnly(), j.env.Cfg)
		} else {
			pr = impl.Parse(s, cfg)
		}
		cpu := cpuSeconds() - cpu0
		c.Evals++
		if cpu > slowParseCPUSeconds && !j.withModel {
			c.Violate(run.Violation{
				Sig:    "unbounded-time:" + tokenShape(s),
				Detail: fmt.Sprintf("Parse(%q) (%d characters) with config %s used %.1f s of CPU time (the slowest 256-character path on the pinned tree needs about 0.01 s)", s, len(s), cfgName, cpu),
				Size:   len(s),
				Case: func() map[string]interface{} {
					cs := strCase(s, cfgName, family)
					cs["slow"] = true
					return cs
				}(),
			})
		}
		key := pr.ErrType
		if pr.F != nil {
			key = "accepted"
		}
		c.Outcome(key)
		if pr.ErrType != "ErrorInvalidSyntax" || !strings.Contains(pr.ErrMsg, "unrecognized input") {
			c.Nontrivial++ // anything but the catch-all rejection exercises an action
		}
		if !j.withModel {
			ok, kind, detail := judgeC02(pr)
			if ok && pr.F != nil {
				// "a usable function": calling it must not panic either
				for _, d := range j.probeDocs {
					res := impl.Call(pr.F, d)
					if res.Panic != "" {
						ok, kind, detail = false, "unusable-function", fmt.Sprintf("the returned function panicked on %s: %s", showVal(d), res.Panic)
						break
					}
				}
			}
			if !ok {
				c.Violate(run.Violation{
					Sig:    kind + ":" + cfgName + ":" + tokenShape(s),
					Detail: fmt.Sprintf("Parse(%q) with config %s: %s", s, cfgName, detail),
					Size:   len(s),
					Case:   strCase(s, cfgName, family),
				})
			} else if pr.F == nil && pr.ErrType != "ErrorInvalidSyntax" {
				c.Sample(map[string]interface{}{"path": s, "config": cfgName, "error": pr.ErrMsg})
			}
			continue
		}
		// C17: compare with the grammar interpreter + action model
		if j.model == nil {
			c.Add("model_unavailable", 1)
			continue
		}
		pd := j.model.Predict(s, mcfg)
		c.States++
		c.Transitions++
		c.Traces++
		ok, kind, detail := judgeC17(s, pr, pd, j.model.Degraded)
		if pd.Stuck != "" {
			c.Add("model_stuck", 1)
		}
		if ok {
			if pr.ErrType == "ErrorInvalidSyntax" && classOf(s) != "ascii" {
				c.Sample(map[string]interface{}{"path": s, "config": cfgName, "error": pr.ErrMsg})
			}
			continue
		}
		c.Violate(run.Violation{
			Sig:    kind + ":" + classOf(s) + ":" + tokenShape(s),
			Detail: fmt.Sprintf("Parse(%q) with config %s: %s", s, cfgName, detail),
			Size:   len(s),
			Case:   strCase(s, cfgName, family),
		})
	}
}

// strCase records a string case; a path that is not valid UTF-8 cannot travel through JSON
// unchanged, so it is stored as a Go-quoted literal instead.
func strCase(s, cfgName, family string) map[string]interface{} {
	cs := map[string]interface{}{"config": cfgName, "family": family}
	if utf8.ValidString(s) {
		cs["path"] = s
	} else {
		cs["path_quoted"] = strconv.Quote(s)
	}
	return cs
}

func strOfCase(cs map[string]interface{}) string {
	if q, ok := cs["path_quoted"].(string); ok {
		if s, err := strconv.Unquote(q); err == nil {
			return s
		}
	}
	s, _ := cs["path"].(string)
	return s
}

// judgeC17 compares the library's outcome with the prediction from the grammar.
func judgeC17(s string, pr impl.ParseResult, pd pmodel.Prediction, degraded bool) (ok bool, kind, detail string) {
	if pr.Panic != "" {
		return true, "", "" // C02's territory
	}
	if pd.Stuck != "" && !degraded {
		// the grammar derives an action trace the actions cannot execute: the documented
		// behaviour is undefined here; only the catch-all position can be checked
		return true, "", ""
	}
	accepted := pr.F != nil && pr.Err == nil
	if degraded {
		// acceptance-and-position checking only
		if pd.CatchAll && accepted {
			return false, "accepts-underivable", "accepted, but the grammar only derives it through the catch-all alternative"
		}
		if pd.CatchAll && pr.ErrType == "ErrorInvalidSyntax" && strings.Contains(pr.ErrMsg, "unrecognized input") {
			want := fmt.Sprintf("position=%d,", pd.Position)
			if !strings.Contains(pr.ErrMsg, want) {
				return false, "position", fmt.Sprintf("reported %q, the longest accepted prefix ends at character %d", pr.ErrMsg, pd.Position)
			}
		}
		return true, "", ""
	}
	switch {
	case pd.Accept && !accepted:
		return false, "rejects-derivable", fmt.Sprintf("derivable from jsonpath.peg with all restrictions satisfied, but rejected: %s %s", pr.ErrType, pr.ErrMsg)
	case !pd.Accept && accepted:
		return false, "accepts-underivable", fmt.Sprintf("accepted, but the grammar/restrictions require %s %q", pd.ErrType, pd.ErrMsg)
	case !pd.Accept:
		if pr.ErrType != pd.ErrType {
			return false, "error-class", fmt.Sprintf("reported %s %q, the first restriction violated in action order gives %s %q", pr.ErrType, pr.ErrMsg, pd.ErrType, pd.ErrMsg)
		}
		if pr.ErrMsg != pd.ErrMsg {
			k := "error-text"
			if pr.ErrType == "ErrorInvalidSyntax" {
				k = "position-or-near"
			}
			return false, k, fmt.Sprintf("reported %q, expected %q", pr.ErrMsg, pd.ErrMsg)
		}
	}
	return true, "", ""
}

func (j *stringsJob) RunUnit(i int, c *run.Ctx) {
	u := j.units[i]
	switch u.kind {
	case "soup":
		j.soup[u.a].Each(j.soupLen(), func(s string) { j.one(c, s, "soup") })
	case "sentences":
		for _, s := range j.sentences[u.a:u.b] {
			j.one(c, s, "sentence")
			gen.Mutants(s, func(m string) { j.one(c, m, "mutant") })
		}
	case "pumped":
		for _, s := range j.pumped[u.a:u.b] {
			j.one(c, s, "pumped")
			// one-character deletions of pumped sentences
			for k := range s {
				_, w := utf8.DecodeRuneInString(s[k:])
				j.one(c, s[:k]+s[k+w:], "pumped-deletion")
			}
		}
	case "suite":
		for _, s := range j.suite[u.a:u.b] {
			j.one(c, s, "suite")
			for k := range s {
				_, w := utf8.DecodeRuneInString(s[k:])
				j.one(c, s[:k]+s[k+w:], "suite-deletion")
			}
			if j.tier == "thorough" {
				gen.Mutants(s, func(m string) { j.one(c, m, "suite-mutant") })
			}
		}
	}
}

func stringsBounds(what string) map[string]string {
	return map[string]string{
		"quick":    what + ": every sequence of <=4 tokens over a 46-token alphabet in 3 contexts (bare, $[..], $[?(..)]); ~4k grammar sentences (all step kinds to length 2, all comparison atoms, operand paths of 0..2 steps with 0..2 functions on either side, logical combinations) and every one-token mutant (delete / insert-before / replace at every character, 46 tokens); ~1000 pumped sentences up to 256 characters and their one-character deletions; every path string of the repository's suite and its one-character deletions; each with no config and with functions+accessor mode",
		"thorough": what + ": token sequences of <=4 tokens over the full alphabet and of 5 tokens over its first 32 (punctuation, operators, a name, numbers, blank); larger sentence set (3-step paths, all pairwise logical combinations) with all one-token mutants; one-token mutants of the suite's paths",
	}
}

func registerStrings(id string, withModel bool, level, rule string, assumptions []string) {
	run.Register(&run.Check{
		ID:          id,
		Level:       level,
		Rule:        rule,
		Assumptions: assumptions,
		Bounds:      stringsBounds(id),
		New:         func(tier string) run.Job { return newStringsJob(id, tier, withModel) },
		Finish: func(tier string, total *run.Ctx, cov map[string]interface{}) {
			if withModel {
				j := newStringsJob(id, "quick", true)
				if j.model == nil {
					cov["grammar_model"] = "unavailable: " + j.loadErr
					cov["exhaustive"] = false
				} else if j.model.Degraded {
					cov["grammar_model"] = fmt.Sprintf("degraded to acceptance-and-position checking: %d actions of jsonpath.peg are not known to the action model", len(j.model.Unknown))
				} else {
					cov["grammar_model"] = fmt.Sprintf("jsonpath.peg interpreted at run time: %d rules, %d actions, all actions classified", len(j.model.G.Rules()), j.model.G.NumActions())
				}
			}
		},
		Replay: func(cs map[string]interface{}) (bool, string) {
			s := strOfCase(cs)
			env := impl.NewEnv()
			var cfg *jsonpath.Config
			mcfg := pmodel.Config{}
			if cs["config"] == "funcs+accessor" {
				cfg = &env.CfgAcc
				mcfg = pmodel.Config{Filter: map[string]bool{}, Aggregate: map[string]bool{}}
				for k := range env.Model.Filter {
					mcfg.Filter[k] = true
				}
				for k := range env.Model.Aggregate {
					mcfg.Aggregate[k] = true
				}
			}
			cpu0 := cpuSeconds()
			pr := impl.Parse(s, cfg)
			if cs["config"] == "two-configs" {
				pr = impl.ParseN(s, c02AccessorOnly(), env.Cfg)
			}
			if cs["slow"] == true {
				cpu := cpuSeconds() - cpu0
				return cpu > slowParseCPUSeconds, fmt.Sprintf("Parse used %.1f s of CPU time", cpu)
			}
			if !withModel {
				ok, _, detail := judgeC02(pr)
				if ok && pr.F != nil {
					for _, d := range []interface{}{decodeDoc(`{"a":[{"a":1,"b":"a"},{"a":2}],"b":1}`, modeFloat), decodeDoc(`[1,"a",null,{"a":{"a":1}},[1,2]]`, modeFloat), nil} {
						if res := impl.Call(pr.F, d); res.Panic != "" {
							return true, "the returned function panicked: " + res.Panic
						}
					}
				}
				return !ok, detail
			}
			src, err := os.ReadFile(repoDir + "/jsonpath.peg")
			if err != nil {
				return false, err.Error()
			}
			g, err := pegi.Load(string(src))
			if err != nil {
				return false, err.Error()
			}
			m := pmodel.New(g)
			ok, _, detail := judgeC17(s, pr, m.Predict(s, mcfg), m.Degraded)
			return !ok, detail
		},
	})
}

func init() {
	registerStrings("C02", false, "exploration",
		"every (string, config) is one execution of Parse in an isolated worker; distinct by construction of the enumerators; non-trivial = the outcome is anything but the catch-all 'unrecognized input' rejection (an action ran)",
		[]string{
			"bounded time: a single Parse that uses more than 5 s of CPU time (500x the slowest 256-character path on the pinned tree) is a violation, and one that has not returned after 60 s of wall time is killed and reported",
			"invariant: the worker survives, Parse returns, exactly one of (function, nil) or (nil, one of the four documented error types); an accepted function is additionally called on three documents and must not panic",
			"strings outside the enumerated sets (longer than 5 tokens and not within one token edit of a sentence) are not covered; arbitrary Unicode is represented by a 2-byte, a 4-byte character and an invalid byte",
		})
	registerStrings("C17", true, "model_checking",
		"every (string, config): the library's outcome is compared with the outcome predicted by interpreting /repo/jsonpath.peg (PEG semantics) and replaying the surviving actions in order through an action model; states = predicted traces, all validated against the implementation; non-trivial = not a catch-all rejection",
		[]string{
			"the model of the parser is the grammar file itself, read at check time; actions are recognised by their source text, number/regex/JSON-string validity is decided with the same standard-library functions the property names",
			"error class = first restriction violated in action order; ErrorInvalidSyntax text compared verbatim (position = character offset, near = the rest of the path from that character)",
			"language equality is decided only up to the enumerated bound",
		})
}
