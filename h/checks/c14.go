package checks

import (
	"fmt"

	"verif/h/gen"
	"verif/h/impl"
	"verif/h/run"
	"verif/h/spec"
)

// C14: function call protocol. Every occurrence of a function in a path uses its own alias
// (f1, g2, ...), so the recorded call log can be compared per occurrence.

var c14Base = []string{"f", "id", "e", "g", "cnt", "eg", "gre", "nl"}

// funcSeqs lists all sequences of 1..maxLen functions; the k-th function carries suffix k.
func funcSeqs(maxLen int) [][]string {
	var out [][]string
	var rec func(cur []string)
	rec = func(cur []string) {
		if len(cur) > 0 {
			out = append(out, append([]string{}, cur...))
		}
		if len(cur) == maxLen {
			return
		}
		for bi, b := range c14Base {
			if len(cur) > 0 && bi >= 6 {
				continue // the re-entrant and the nil-returning function only in first position
			}
			rec(append(cur, fmt.Sprintf("%s%d", b, len(cur)+1)))
		}
	}
	rec(nil)
	return out
}

type c14Unit struct {
	prefix []gen.Step
	// kind 0: trailing function sequences after prefix; kind 1: function chains inside a filter
	// operand, the filter placed after prefix
	kind   int
	maxSeq int
}

type c14Job struct {
	units []c14Unit
	ds    *docSet
	env   *impl.Env
}

func (j *c14Job) NumUnits() int { return len(j.units) }
func (j *c14Job) Describe(i int) map[string]interface{} {
	pre := gen.Render(&gen.Path{Root: '$', Steps: j.units[i].prefix}, nil).Text
	return map[string]interface{}{"unit": i, "prefix": pre, "kind": j.units[i].kind, "sig": fmt.Sprintf("c14unit:%d:%s", j.units[i].kind, pre)}
}

func c14OperandPaths() []*gen.Path {
	a := gen.Name("a")
	return []*gen.Path{
		gen.P('@'), gen.P('@', a), gen.P('@', gen.Wild()), gen.P('@', gen.Union(gen.Idx(0))), gen.P('@', gen.Multi("a", "b")),
		gen.P('@', gen.Rec(a)), gen.P('$'), gen.P('$', a), gen.P('$', gen.Wild()),
		// the operand's own path has a nested filter that refers to '$' (the document root, also
		// below a function)
		gen.P('@', gen.Filter(gen.Cmp("==", gen.OpP(gen.P('@')), gen.OpP(gen.P('$', gen.Name("b")))))),
		gen.P('@', a, gen.Filter(gen.Exists(gen.P('$', gen.Name("b"))))),
		gen.P('$', a, gen.Filter(gen.Cmp("!=", gen.OpP(gen.P('@')), gen.OpP(gen.P('$', gen.Name("b")))))),
	}
}

func (u c14Unit) paths() []*gen.Path {
	var out []*gen.Path
	if u.kind == 0 {
		for _, fs := range funcSeqs(u.maxSeq) {
			out = append(out, &gen.Path{Root: '$', Steps: u.prefix, Funcs: fs})
		}
		return out
	}
	for _, op := range c14OperandPaths() {
		for _, fs := range funcSeqs(u.maxSeq) {
			opf := op.F(fs...)
			for form := 0; form < 3; form++ {
				if form > 0 && opf.ValueGroup() {
					continue // documented restriction: no value-group operand in a comparison
				}
				var q *gen.Query
				switch form {
				case 0:
					q = gen.Exists(opf)
				case 1:
					q = gen.Cmp("==", gen.OpP(opf), gen.LitNum(2))
				case 2:
					q = gen.Cmp("<", gen.LitNum(1), gen.OpP(opf))
				}
				steps := append(append([]gen.Step{}, u.prefix...), gen.Filter(q))
				out = append(out, &gen.Path{Root: '$', Steps: steps})
			}
		}
	}
	return out
}

func newC14(tier string) run.Job {
	j := &c14Job{env: impl.NewEnv(), ds: newDocSet(stdDocSpec(tier), []int{modeFloat})}
	mid := gen.SigmaMid()
	d2, d3 := 2, 0
	if tier == "thorough" {
		d2, d3 = 3, 2
	}
	var prefixes [][]gen.Step
	level := [][]gen.Step{{}}
	for d := 0; d <= d2; d++ {
		prefixes = append(prefixes, level...)
		var next [][]gen.Step
		for _, p := range level {
			for _, s := range mid {
				next = append(next, append(append([]gen.Step{}, p...), s))
			}
		}
		level = next
	}
	for _, p := range prefixes {
		ms := 2
		if len(p) <= d3 {
			ms = 3
		}
		if len(p) >= 3 {
			ms = 1
		}
		j.units = append(j.units, c14Unit{prefix: p, kind: 0, maxSeq: ms})
	}
	// operand chains: after $, $.a, $.*, $[0], $..a
	a := gen.Name("a")
	for _, p := range [][]gen.Step{{}, {a}, {gen.Wild()}, {gen.Union(gen.Idx(0))}, {gen.Rec(a)}} {
		j.units = append(j.units, c14Unit{prefix: p, kind: 1, maxSeq: 2})
	}
	return j
}

// c14Judge: values, errors and per-occurrence call logs against the model.
func c14Judge(p *gen.Path, pos []string, out *spec.Outcome, modelLog []spec.Call, res impl.CallResult, implLog []spec.Call) (ok bool, kind, detail string) {
	if ok, k, d := c01Judge(out, res); !ok {
		return false, k, d
	}
	if len(out.Nodes) == 0 {
		if ok, k, d := c15Judge(out, pos, res); !ok {
			return false, k, d
		}
	}
	if !impl.SameLogs(modelLog, implLog) {
		return false, "call-log", fmt.Sprintf("user functions were called as%s; the protocol requires%s", showLog(implLog), showLog(modelLog))
	}
	return true, "", ""
}

func (j *c14Job) RunUnit(i int, c *run.Ctx) {
	u := j.units[i]
	type pcase struct {
		p *gen.Path
		r gen.Rendered
		f impl.Func
	}
	var cases []pcase
	for _, p := range u.paths() {
		r := gen.Render(p, nil)
		pr := impl.Parse(r.Text, &j.env.Cfg)
		if pr.F == nil {
			c.Violate(run.Violation{
				Sig:    "parse-rejected:" + gen.Shape(p),
				Detail: fmt.Sprintf("supported path %q was not accepted by Parse: err=%s %s panic=%s", r.Text, pr.ErrType, pr.ErrMsg, pr.Panic),
				Size:   len(r.Text),
				Case:   caseOfP("C14", p, r.Text, "null", 0, "funcs"),
			})
			continue
		}
		cases = append(cases, pcase{p, r, pr.F})
	}
	m := modeFloat
	// prefixes of two or more steps: the documents of <=4 nodes plus the wide and big ones (the
	// thorough tier's 5-node documents are used for the shorter prefixes)
	docIdx := j.ds.indices(&gen.Ladder{})
	if len(u.prefix) >= 2 {
		docIdx = j.ds.indices(&gen.Ladder{SmallDocs: true})
	}
	for _, di := range docIdx {
		for _, pc := range cases {
			c.Tick()
			doc := j.ds.docs[m][di]
			j.env.ResetLogs()
			out := spec.Eval(pc.p, doc, j.env.Model)
			c.States++
			c.Transitions += int64(len(pc.p.Steps) + len(pc.p.Funcs))
			res := impl.Call(pc.f, doc)
			c.Evals++
			c.Traces++
			if out.Unspec {
				c.Add("unspecified_skipped", 1)
				continue
			}
			c.Outcome(fmt.Sprintf("%s/calls=%d", res.Key(), min(len(j.env.ImplLog), 4)))
			if len(j.env.ModelLog) > 0 {
				c.Nontrivial++
			}
			ok, _, _ := c14Judge(pc.p, pc.r.Pos, &out, j.env.ModelLog, res, j.env.ImplLog)
			if ok {
				if len(j.env.ModelLog) > 2 && res.ErrType == "" {
					c.Sample(map[string]interface{}{"path": pc.r.Text, "doc": j.ds.text[di], "result": show(res.Values), "calls": showLog(j.env.ImplLog)})
				}
			} else {
				// fresh evaluation decides
				fdoc := gen.Clone(j.ds.pristine[m][di])
				env := impl.NewEnv()
				pr := impl.Parse(pc.r.Text, &env.Cfg)
				fout := spec.Eval(pc.p, fdoc, env.Model)
				if fok, fk, fd := c14Judge(pc.p, pc.r.Pos, &fout, env.ModelLog, impl.Call(pr.F, fdoc), env.ImplLog); fok {
					c.Add("history_dependence_seen", 1)
				} else {
					c.Violate(run.Violation{
						Sig:    fk + ":" + gen.Shape(pc.p),
						Detail: fmt.Sprintf("%s on %s: %s", pc.r.Text, j.ds.text[di], fd),
						Size:   len(pc.r.Text)*100 + len(j.ds.text[di]),
						Case:   caseOfP("C14", pc.p, pc.r.Text, j.ds.text[di], m, "funcs"),
					})
				}
			}
			if j.ds.restore(m, di) {
				c.Add("source_mutation_seen", 1)
			}
		}
	}
}

func init() {
	run.Register(&run.Check{
		ID:    "C14",
		Level: "model_checking",
		Rule:  "every (path with 1..3 functions, document); every function occurrence has its own alias so the recorded log is compared per occurrence (function, argument, order, count); non-trivial = the model calls at least one function",
		Assumptions: []string{
			"functions: f doubles numbers and fails otherwise, id, e always fails; aggregates g (returns its list), cnt, eg always fails, gre (re-entrant: performs two retrievals of its own before copying its argument list)",
			"inside filters only single-atom filters are used, so short-circuit evaluation of && / || cannot hide a call; the relative order of calls of different occurrences is not compared (the property does not fix it)",
		},
		Bounds: map[string]string{
			"quick":    "navigation prefixes of <=2 steps over the 16-step alphabet followed by every sequence of 1..2 functions (1..3 directly after $) out of 8 (doubling, identity, failing, nil-returning filter functions; list, count, failing, re-entrant aggregates); function chains of 1..2 inside filter operands (12 operand paths, three of them with a nested filter that refers to '$', x 3 filter forms) after 5 prefixes; every document of <=4 nodes",
			"thorough": "prefixes of <=2 steps with 1..3 functions, 3 steps with one function; operand chains as in quick; every document of <=5 nodes for prefixes of <=1 step, of <=4 nodes plus the wide and big documents for longer prefixes",
		},
		New: newC14,
		Replay: func(cs map[string]interface{}) (bool, string) {
			return replayProduct(cs, func(path string, p *gen.Path, doc interface{}, env *impl.Env) (bool, string) {
				pr := impl.Parse(path, &env.Cfg)
				if pr.F == nil {
					return true, "Parse rejected: " + pr.ErrType + " " + pr.ErrMsg + pr.Panic
				}
				out := spec.Eval(p, doc, env.Model)
				ok, _, detail := c14Judge(p, gen.Render(p, nil).Pos, &out, env.ModelLog, impl.Call(pr.F, doc), env.ImplLog)
				return !ok, detail
			})
		},
	})
}
