//go:build verif

package checks

import (
	"encoding/json"
	"fmt"
	"hash/fnv"
	"os"
	"os/exec"
	"path/filepath"
	"reflect"
	"sort"
	"strings"
	"time"

	"github.com/AsaiYusuke/jsonpath"

	"verif/h/impl"
	"verif/h/run"
	"verif/h/sched"
)

// C19: Parse depends only on the path and the Config given to that call.
//
// Operation alphabet: Parse(path, config) for 19 paths x 9 configs, "rebind f in the shared
// Config object", and "call the function returned by the i-th earlier Parse again". Every
// operation's outcome must equal the outcome of the same operation performed FIRST in a FRESH
// PROCESS (references are computed by one subprocess per operation).

var c19Paths = []string{
	`$.a`,                                  // plain
	`$.*.f()`,                              // filter function
	`$.*.g()`,                              // aggregate
	`$[?(@.f() == 2)]`,                     // function inside a filter
	`$[?(@.a.g().f() > 1)].a`,              // both kinds inside a filter
	`$[99999999999999999999]`,              // bad integer
	`$[?(@.a == 1e)]`,                      // bad float
	`$[?(@.a =~ /(/)]`,                     // bad regex
	"$['a\x01']",                           // bad string (raw control character)
	`$.*.f().zz()`,                         // unknown function after a known one
	`$[(1+1)]`,                             // script
	`$[?(@.* == 1)]`,                       // value-group comparison
	`$[?(@.a == @.b)]`,                     // two current nodes
	`$.a.b[0]]`,                            // trailing garbage
	`$[?($.a == 1 && @.b)]`,                // nested parameters (action stack save/load)
	`[?(@.a)].a`,                           // leading $ omitted, filter first (nothing to save on the action stack)
	`a.b`,                                  // leading $ omitted, bare name
	`$.b[?(@[99999999999999999999] == 1)]`, // failure inside a filter parameter with an outer path
	`$.b[?(@.a.zz() == 1)]`,                // unknown function inside a filter parameter with an outer path
	// paths of more than 64 and more than 128 bytes (size thresholds of parser-side caches)
	`$[?(@.a == 1 || @.a == 2 || @.b == 1 || @.b == 2 || @.a.f() == 2 || @.a == 3)].a`,
	`$[?(@.a == 1 || @.a == 2 || @.b == 1 || @.b == 2 || @.a == 3 || @.a == 4 || @.a == 5 || @.a == 6 || @.a == 7 || @.a == 8 || @.a == 9)]['a','b'].zz()`,
	// the empty path (the zero value of every "last path" field) and a path longer than 1024 bytes
	``,
	`$[?(` + strings.Repeat(`@.a == 1 || `, 90) + `@.a == 2)].a`,
}

// config kinds: 0 none, 1 {f}, 2 {g}, 3 {f' = same name, other behaviour}, 4 accessor only,
// 5 {f,g}+accessor, 6 the SHARED config object (f, possibly rebound by an earlier operation),
// 7 two Config arguments: the shared object and a fresh {f', h, g}, 8 a by-value COPY of the shared
// object on which SetAccessorMode was called after copying
// 9 the first element of a two-element Config slice the history owns, passed as slice[:1]...,
// 10 the second element of that slice, passed as a single argument
const c19NumCfg = 11

// kinds 7 and 8 are exercised with the paths that can observe them (plain, f, g)
func c19OpEnabled(op int) bool {
	if op >= c19NumParse() {
		return true
	}
	return op%c19NumCfg < 7 || op/c19NumCfg <= 2 || op/c19NumCfg == 19
}

func c19F(v interface{}) (interface{}, error) {
	if f, ok := v.(float64); ok {
		return f * 2, nil
	}
	return nil, fmt.Errorf("not a number")
}
func c19F2(v interface{}) (interface{}, error)   { return "other", nil }
func c19G(vs []interface{}) (interface{}, error) { return float64(len(vs)), nil }

func c19Config(kind int, shared *jsonpath.Config) []jsonpath.Config {
	var c jsonpath.Config
	switch kind {
	case 0:
		return nil
	case 1:
		c.SetFilterFunction("f", c19F)
	case 2:
		c.SetAggregateFunction("g", c19G)
	case 3:
		c.SetFilterFunction("f", c19F2)
	case 4:
		c.SetAccessorMode()
	case 5:
		c.SetFilterFunction("f", c19F)
		c.SetAggregateFunction("g", c19G)
		c.SetAccessorMode()
	case 6:
		return []jsonpath.Config{*shared}
	case 7:
		c.SetFilterFunction("f", c19F2)
		c.SetFilterFunction("h", c19F)
		c.SetAggregateFunction("g", c19G)
		return []jsonpath.Config{*shared, c}
	case 8:
		cp := *shared
		cp.SetAccessorMode()
		return []jsonpath.Config{cp}
	}
	return []jsonpath.Config{c}
}

// c19SliceConfig: kinds 9 and 10 use a Config slice that lives as long as the history.
func c19SliceConfig(kind int, s *c19State) []jsonpath.Config {
	if s.cfgSlice == nil {
		var a, b jsonpath.Config
		a.SetFilterFunction("f", c19F)
		b.SetFilterFunction("f", c19F2)
		b.SetAggregateFunction("g", c19G)
		b.SetAccessorMode()
		s.cfgSlice = []jsonpath.Config{a, b}
	}
	if kind == 9 {
		return s.cfgSlice[:1] // spare capacity behind it: the second element
	}
	return []jsonpath.Config{s.cfgSlice[1]}
}

func c19ConfigFor(kind int, s *c19State) []jsonpath.Config {
	if kind >= 9 {
		return c19SliceConfig(kind, s)
	}
	return c19Config(kind, &s.shared)
}

var c19Probes = []string{`{"a":1,"b":[1,2]}`, `[{"a":1,"b":1},{"a":2},3]`, `{"a":{"b":[5]}}`, `[1,2]`}

func c19Fingerprint(f func(interface{}) ([]interface{}, error)) string {
	var parts []string
	for _, p := range c19Probes {
		var doc interface{}
		json.Unmarshal([]byte(p), &doc)
		res := impl.Call(f, doc)
		switch {
		case res.Panic != "":
			parts = append(parts, "panic:"+res.Panic)
		case res.ErrType != "":
			parts = append(parts, res.ErrType+":"+res.ErrMsg)
		default:
			if vals, isAcc := impl.Unwrap(res.Values); isAcc && len(res.Values) > 0 {
				parts = append(parts, "accessors"+show(vals))
			} else {
				parts = append(parts, show(res.Values))
			}
		}
	}
	return strings.Join(parts, " | ")
}

// c19Core: the operations that continue thorough histories beyond the second one: Parse of
// the function paths, the bad-regex path, the two '$'-less / failing-inside-a-parameter paths
// with no config, {f} and the shared object; rebind; re-call of the newest function.
func c19Core(op int) bool {
	if op >= c19NumParse() {
		return op <= c19NumParse()+1
	}
	pi, ck := op/c19NumCfg, op%c19NumCfg
	switch pi {
	case 1, 2, 7, 15, 17, 18, 19, 21, 22:
		return ck == 0 || ck == 1 || ck == 6 || (pi >= 21 && ck == 4)
	}
	return false
}

// c19RetrieveOnce renders the outcome of Retrieve(path, first probe document, config...).
func c19RetrieveOnce(path string, cfgs []jsonpath.Config) (out string) {
	defer func() {
		if e := recover(); e != nil {
			out = fmt.Sprint("panic:", e)
		}
	}()
	var probe interface{}
	json.Unmarshal([]byte(c19Probes[0]), &probe)
	rv, err := jsonpath.Retrieve(path, probe, cfgs...)
	if err != nil {
		return impl.ErrType(err) + ":" + err.Error()
	}
	if vals, isAcc := impl.Unwrap(rv); isAcc && len(rv) > 0 {
		return "accessors" + show(vals)
	}
	return show(rv)
}

// c19State is the mutable state a history carries.
type c19State struct {
	shared  jsonpath.Config
	rebound bool
	// cfgSlice: a two-element Config slice owned by the history (kinds 9 and 10)
	cfgSlice []jsonpath.Config
	funcs    []func(interface{}) ([]interface{}, error)
	prints   []string
}

func newC19State() *c19State {
	s := &c19State{}
	s.shared.SetFilterFunction("f", c19F)
	return s
}

// operations: 0..nParse-1 = Parse(path, cfg); nParse = rebind; nParse+1.. = re-call k-th newest function
func c19NumParse() int { return len(c19Paths) * c19NumCfg }
func c19NumOps() int   { return c19NumParse() + 1 + 2 }

func c19OpString(op int) string {
	if op < c19NumParse() {
		pt := c19Paths[op/c19NumCfg]
		if len(pt) > 100 {
			pt = fmt.Sprintf("%s...(%d bytes)", pt[:60], len(pt))
		}
		return fmt.Sprintf("Parse(%q, cfg%d)", pt, op%c19NumCfg)
	}
	if op == c19NumParse() {
		return "rebind f in the shared Config"
	}
	return fmt.Sprintf("re-call function #%d (newest first)", op-c19NumParse()-1)
}

// c19Apply performs one operation and returns its observable outcome. refKey names the
// reference outcome it must equal ("" = compare with the stored fingerprint).
func c19Apply(s *c19State, op int) (outcome, refKey string) {
	if op < c19NumParse() {
		pi, ck := op/c19NumCfg, op%c19NumCfg
		refKey = fmt.Sprintf("%d/%d", pi, ck)
		if ck == 6 && s.rebound {
			refKey = fmt.Sprintf("%d/3", pi) // the shared object now holds f' only: same as config kind 3
		} else if ck == 6 {
			refKey = fmt.Sprintf("%d/1", pi)
		} else if (ck == 7 || ck == 8) && s.rebound {
			refKey += "r" // reference: fresh process, rebind, then this operation
		}
		pr := impl.ParseN(c19Paths[pi], c19ConfigFor(ck, s)...)
		switch {
		case pr.Panic != "":
			return "panic:" + pr.Panic, refKey
		case pr.F != nil && pr.Err != nil:
			return "function AND error", refKey
		case pr.F == nil:
			return pr.ErrType + ":" + pr.ErrMsg, refKey
		}
		fp := c19Fingerprint(pr.F)
		s.funcs = append(s.funcs, pr.F)
		s.prints = append(s.prints, fp)
		// the one-shot wrapper with the same arguments (it parses again: a cache in front of it
		// must not confuse Configs either)
		return "ok " + fp + " | Retrieve: " + c19RetrieveOnce(c19Paths[pi], c19ConfigFor(ck, s)), refKey
	}
	if op == c19NumParse() {
		s.shared.SetFilterFunction("f", c19F2)
		s.rebound = true
		return "", "-"
	}
	k := op - c19NumParse() - 1
	if k >= len(s.funcs) {
		return "", "-"
	}
	i := len(s.funcs) - 1 - k
	return "ok " + c19Fingerprint(s.funcs[i]), "stored:" + s.prints[i]
}

// c19Replay executes an operation log (with -1 history markers) and returns the outcome of its
// last operation.
func c19Replay(seq []int) string {
	var s *c19State
	last := ""
	for _, op := range seq {
		if op < 0 || s == nil {
			s = newC19State()
			if op < 0 {
				continue
			}
		}
		last, _ = c19Apply(s, op)
	}
	return last
}

// C19TryMain: subprocess that replays a log read from stdin in a fresh process and exits 3 if
// the last outcome differs from the expected one.
func C19TryMain(args []string) int {
	sched.Install()
	var in struct {
		Log      []int  `json:"log"`
		Expected string `json:"expected"`
	}
	if err := json.NewDecoder(os.Stdin).Decode(&in); err != nil {
		return 2
	}
	if got := c19Replay(in.Log); got != in.Expected {
		fmt.Print(got)
		return 3
	}
	return 0
}

func c19Try(seq []int, expected string) bool {
	b, _ := json.Marshal(map[string]interface{}{"log": seq, "expected": expected})
	cmd := exec.Command(os.Args[0], "-c19try")
	cmd.Stdin = strings.NewReader(string(b))
	err := cmd.Run()
	if ee, ok := err.(*exec.ExitError); ok {
		return ee.ExitCode() == 3
	}
	return false
}

// minimise reduces the process's operation log (which ends with the mismatching operation)
// to a short sequence that still reproduces the mismatch in a FRESH process: first the
// shortest suffix (whole histories, doubling), then delta debugging over the histories and
// over the operations of the remaining ones. Every candidate is executed in a fresh process.
func (j *c19Job) minimise(expected string) []int {
	log := j.oplog
	// split into histories
	var hists [][]int
	for _, op := range log {
		if op < 0 {
			hists = append(hists, nil)
			continue
		}
		if len(hists) == 0 {
			hists = append(hists, nil)
		}
		hists[len(hists)-1] = append(hists[len(hists)-1], op)
	}
	join := func(hs [][]int) []int {
		var out []int
		for _, h := range hs {
			if len(h) == 0 {
				continue
			}
			out = append(out, -1)
			out = append(out, h...)
		}
		return out
	}
	budget := 120
	try := func(hs [][]int) bool {
		if budget <= 0 {
			return false
		}
		budget--
		return c19Try(join(hs), expected)
	}
	// 1. shortest reproducing suffix
	n := len(hists)
	k := 1
	for ; k < n; k *= 2 {
		if try(hists[n-k:]) {
			break
		}
	}
	if k > n {
		k = n
	}
	cur := append([][]int{}, hists[n-min(k, n):]...)
	if !try(cur) {
		return join(cur) // not reproducible in a fresh process even with the whole log
	}
	// 2. delta debugging over whole histories (the last one is kept)
	for chunk := len(cur) / 2; chunk >= 1; chunk /= 2 {
		for i := 0; i+chunk < len(cur); {
			cand := append(append([][]int{}, cur[:i]...), cur[i+chunk:]...)
			if try(cand) {
				cur = cand
			} else {
				i += chunk
			}
		}
	}
	// 3. drop single operations inside the remaining earlier histories
	for hi := 0; hi < len(cur)-1; hi++ {
		for oi := 0; oi < len(cur[hi]); {
			h := append(append([]int{}, cur[hi][:oi]...), cur[hi][oi+1:]...)
			cand := append([][]int{}, cur...)
			cand[hi] = h
			if try(cand) {
				cur = cand
			} else {
				oi++
			}
		}
	}
	return join(cur)
}

// c19References computes, in one fresh subprocess per (path, config kind), the outcome of that
// Parse performed first.
func c19References() (map[string]string, error) {
	// the workers of one run share the references through the run's scratch directory: the first
	// one computes them (one fresh subprocess per operation), the others wait for the file
	if dir := os.Getenv("VERIF_RUNDIR"); dir != "" {
		file := filepath.Join(dir, "c19refs.json")
		if lock, err := os.OpenFile(file+".lock", os.O_CREATE|os.O_EXCL|os.O_WRONLY, 0644); err == nil {
			lock.Close()
			refs, err := c19ComputeReferences()
			if err != nil {
				return nil, err
			}
			b, _ := json.Marshal(refs)
			os.WriteFile(file+".tmp", b, 0644)
			os.Rename(file+".tmp", file)
			return refs, nil
		}
		for i := 0; i < 1200; i++ {
			if b, err := os.ReadFile(file); err == nil {
				refs := map[string]string{}
				if json.Unmarshal(b, &refs) == nil && len(refs) > 0 {
					return refs, nil
				}
			}
			time.Sleep(100 * time.Millisecond)
		}
	}
	return c19ComputeReferences()
}

func c19ComputeReferences() (map[string]string, error) {
	refs := map[string]string{}
	for pi := range c19Paths {
		for ck := 0; ck < c19NumCfg; ck++ {
			if ck == 6 || !c19OpEnabled(pi*c19NumCfg+ck) {
				continue
			}
			for _, rebound := range []string{"", "r"} {
				if rebound == "r" && ck != 7 && ck != 8 {
					continue
				}
				out, err := exec.Command(os.Args[0], "-c19ref", fmt.Sprint(pi), fmt.Sprint(ck), rebound).Output()
				if err != nil {
					return nil, fmt.Errorf("reference process for %s cfg%d failed: %v", c19Paths[pi], ck, err)
				}
				refs[fmt.Sprintf("%d/%d%s", pi, ck, rebound)] = string(out)
			}
		}
	}
	return refs, nil
}

// C19RefMain is the body of the reference subprocess.
func C19RefMain(args []string) int {
	var pi, ck int
	fmt.Sscan(args[0], &pi)
	fmt.Sscan(args[1], &ck)
	sched.Install()
	s := newC19State()
	if len(args) > 2 && args[2] == "r" {
		c19Apply(s, c19NumParse())
	}
	out, _ := c19Apply(s, pi*c19NumCfg+ck)
	fmt.Print(out)
	return 0
}

type c19Job struct {
	tier  string
	refs  map[string]string
	err   error
	depth int
	// recent: the last Parse operations this process executed before the current history began
	// (histories run back to back; a leak may need them to manifest)
	recent  []int
	prelude []int
	// oplog: every operation this process executed, with -1 marking the start of each history
	// (fresh harness-side state). A mismatch that needs more than its own history to manifest
	// is reduced to a replayable sequence by searching this log (see minimise).
	oplog    []int
	reported map[string]int
}

func (j *c19Job) beginHistory() {
	j.prelude = append([]int{}, j.recent...)
	j.oplog = append(j.oplog, -1)
}

func (j *c19Job) note(op int) {
	if op < c19NumParse() && op%c19NumCfg < 6 {
		j.recent = append(j.recent, op)
		if len(j.recent) > 4 {
			j.recent = j.recent[len(j.recent)-4:]
		}
	}
}

func newC19(tier string) run.Job {
	sched.Install()
	j := &c19Job{tier: tier, depth: 3}
	if tier == "thorough" {
		j.depth = 4
	}
	j.refs, j.err = c19References()
	return j
}

// units: first operation of the history (plus one unit for the explicit-state search)
func (j *c19Job) NumUnits() int { return c19NumOps() + 1 }
func (j *c19Job) Describe(i int) map[string]interface{} {
	return map[string]interface{}{"unit": i, "sig": fmt.Sprintf("c19unit:%d", i)}
}

func (j *c19Job) check(c *run.Ctx, hist []int, s *c19State, op int) bool {
	out, ref := c19Apply(s, op)
	j.note(op)
	j.oplog = append(j.oplog, op)
	c.Evals++
	c.Transitions++
	if ref == "-" {
		return true
	}
	want := ""
	if strings.HasPrefix(ref, "stored:") {
		want = "ok " + strings.TrimPrefix(ref, "stored:")
	} else {
		want = j.refs[ref]
	}
	c.Traces++
	key := strings.SplitN(out, ":", 2)[0]
	if len(key) > 2 && key[:2] == "ok" {
		key = "ok"
	}
	c.Outcome(key)
	if out == want {
		return true
	}
	sig := "history-dependent:" + c19OpString(op)
	if j.reported == nil {
		j.reported = map[string]int{}
	}
	j.reported[sig]++
	j.reported["*"]++
	if j.reported[sig] > 1 || j.reported["*"] > 5 {
		// minimisation runs fresh processes: a few replayable witnesses per worker are enough
		c.Add("violations_seen", 1)
		return false
	}
	seq := j.minimise(want)
	var hs []string
	for _, h := range seq {
		if h < 0 {
			hs = append(hs, "|")
		} else {
			hs = append(hs, c19OpString(h))
		}
	}
	c.Violate(run.Violation{
		Sig:    sig,
		Detail: fmt.Sprintf("after [%s] ('|' = new history: fresh Config objects) the last operation gave %q; performed first in a fresh process it gives %q", strings.Join(hs[:len(hs)-1], "; "), out, want),
		Size:   len(seq)*1000 + op,
		Case:   map[string]interface{}{"log": seq, "readable": hs, "expected": want},
	})
	return false
}

func (j *c19Job) RunUnit(i int, c *run.Ctx) {
	if j.err != nil {
		c.Add("reference_failure", 1)
		return
	}
	if i == c19NumOps() {
		j.explicitState(c)
		return
	}
	if !c19OpEnabled(i) {
		return
	}
	// all histories of length <= depth that start with operation i
	n := c19NumOps()
	var rec func(hist []int)
	rec = func(hist []int) {
		// replay the history on fresh harness-side state (the package state is whatever earlier
		// histories left behind: the property says that must not matter)
		c.Tick()
		j.beginHistory()
		s := newC19State()
		for k, op := range hist {
			if !j.check(c, hist[:k], s, op) {
				return
			}
		}
		c.States++
		c.Nontrivial++
		if len(hist) == 2 && hist[1]%17 == 0 {
			c.Sample(map[string]interface{}{"history": []string{c19OpString(hist[0]), c19OpString(hist[1])}})
		}
		if len(hist) == j.depth {
			return
		}
		for op := 0; op < n; op++ {
			if !c19OpEnabled(op) {
				continue
			}
			// depth pruning for the quick tier: the third operation ranges over a reduced alphabet
			// third operation: the core alphabet (quick); also the reduced alphabet (thorough)
			reduced := !(op < c19NumParse() && (op%c19NumCfg)%2 == 1 && (op/c19NumCfg)%3 != 0)
			if len(hist) == 2 && !c19Core(op) && !(j.tier == "thorough" && reduced) {
				continue
			}
			// thorough tier, histories of length 4: operations 3 and 4 both from the core alphabet
			if len(hist) == 3 && !(c19Core(hist[1]) && c19Core(hist[2]) && c19Core(op)) {
				continue
			}
			rec(append(hist, op))
		}
	}
	rec([]int{i})
}

// globalHash hashes every package-level variable of the package under test (through the
// accessor generated by vinstr) plus the explorer-owned pool contents.
func globalHash() uint64 {
	h := fnv.New64a()
	g := jsonpath.VerifGlobals()
	var names []string
	for k := range g {
		names = append(names, k)
	}
	sort.Strings(names)
	seen := map[uintptr]bool{}
	var walk func(v reflect.Value, depth int)
	walk = func(v reflect.Value, depth int) {
		if depth > 40 {
			return
		}
		switch v.Kind() {
		case reflect.Ptr:
			if v.IsNil() {
				h.Write([]byte{0})
				return
			}
			if seen[v.Pointer()] {
				h.Write([]byte{2})
				return
			}
			seen[v.Pointer()] = true
			h.Write([]byte{1})
			walk(v.Elem(), depth+1)
		case reflect.Interface:
			if v.IsNil() {
				h.Write([]byte{0})
				return
			}
			h.Write([]byte(v.Elem().Type().String()))
			walk(v.Elem(), depth+1)
		case reflect.Struct:
			for i := 0; i < v.NumField(); i++ {
				h.Write([]byte(v.Type().Field(i).Name))
				walk(v.Field(i), depth+1)
			}
		case reflect.Slice:
			if v.IsNil() {
				h.Write([]byte{0})
				return
			}
			fmt.Fprintf(h, "len%d", v.Len())
			for i := 0; i < v.Len(); i++ {
				walk(v.Index(i), depth+1)
			}
		case reflect.Array:
			for i := 0; i < v.Len(); i++ {
				walk(v.Index(i), depth+1)
			}
		case reflect.Map:
			if v.IsNil() {
				h.Write([]byte{0})
				return
			}
			keys := v.MapKeys()
			sort.Slice(keys, func(a, b int) bool { return fmt.Sprint(keys[a]) < fmt.Sprint(keys[b]) })
			for _, k := range keys {
				fmt.Fprint(h, k)
				walk(v.MapIndex(k), depth+1)
			}
		case reflect.Func, reflect.Chan, reflect.UnsafePointer:
			if v.IsNil() {
				h.Write([]byte{0})
			} else {
				h.Write([]byte{1})
			}
		case reflect.String:
			h.Write([]byte(v.String()))
			h.Write([]byte{0xff})
		case reflect.Bool:
			if v.Bool() {
				h.Write([]byte{1})
			} else {
				h.Write([]byte{0})
			}
		case reflect.Int, reflect.Int8, reflect.Int16, reflect.Int32, reflect.Int64:
			fmt.Fprintf(h, "%d,", v.Int())
		case reflect.Uint, reflect.Uint8, reflect.Uint16, reflect.Uint32, reflect.Uint64, reflect.Uintptr:
			fmt.Fprintf(h, "%d,", v.Uint())
		case reflect.Float32, reflect.Float64:
			fmt.Fprintf(h, "%g,", v.Float())
		}
	}
	for _, n := range names {
		if n == "rul3s" || n == "unescapeRegex" { // constants
			continue
		}
		h.Write([]byte(n))
		walk(reflect.ValueOf(g[n]), 0)
	}
	return h.Sum64()
}

// explicitState: breadth-first search over operation histories with the canonical hash of the
// package's global state; a state is expanded once; every transition's observation is checked
// against the fresh-process reference. The hash is never used to skip an oracle.
func (j *c19Job) explicitState(c *run.Ctx) {
	n := c19NumParse()
	type node struct{ hist []int }
	seen := map[uint64]bool{globalHash(): true}
	frontier := []node{{nil}}
	states, transitions, irreproducible := 1, 0, 0
	const maxStates = 64
	for len(frontier) > 0 && states < maxStates && j.reported["*"] == 0 {
		cur := frontier[0]
		frontier = frontier[1:]
		for op := 0; op < n; op++ {
			if !c19OpEnabled(op) {
				continue
			}
			c.Tick()
			j.beginHistory()
			// reach the state by replaying its history, then apply op
			s := newC19State()
			for k, h := range cur.hist {
				j.check(c, cur.hist[:k], s, h)
			}
			j.check(c, cur.hist, s, op)
			transitions++
			hv := globalHash()
			if !seen[hv] {
				seen[hv] = true
				states++
				frontier = append(frontier, node{append(append([]int{}, cur.hist...), op)})
			}
		}
		_ = irreproducible
	}
	c.Add("explicit_states", int64(states))
	c.Add("explicit_transitions", int64(transitions))
	if len(frontier) == 0 {
		c.Add("explicit_fixpoint_reached", 1)
	}
	c.States += int64(states)
}

func init() {
	run.Commands["-c19ref"] = C19RefMain
	run.Commands["-c19try"] = C19TryMain
	run.Register(&run.Check{
		ID:    "C19",
		Level: "model_checking",
		Rule:  "(i) every history (sequence of operations) up to the depth bound is replayed; every operation's outcome - error type and text, or a behavioural fingerprint of the returned function (results, accessor-ness, function behaviour on 4 probe documents) - is compared with the same operation performed first in a fresh process; (ii) explicit-state BFS on the canonical hash of all package-level variables, to a fixpoint; non-trivial = a complete history",
		Assumptions: []string{
			"references come from one fresh subprocess per (path, config kind); histories run back to back in one process, so every history is also preceded by all earlier ones",
			"the state hash covers every package-level variable (reflectively, unexported fields included; function values as nil/non-nil) and the pool contents; state hidden in closures of the generated matcher is outside the hash - part (i) does not depend on the hash",
		},
		Bounds: map[string]string{
			"quick":    "operations: Parse of 23 paths (three of them longer than 64 / 128 / 1024 bytes, and the empty path; plain, filter function, aggregate, functions inside filters, nested parameters, and one failing at each action: bad integer, bad float, bad regex, bad string, unknown function after a known one, script, value-group comparison, two @ operands, trailing garbage) x 7 configs (none, {f}, {g}, {f'}, accessor, all, shared object) plus, for the plain / f / g paths, two Config arguments (shared object, fresh {f', h, g}) and a by-value copy of the shared object with accessor mode set on the copy, 'rebind f in the shared Config', 're-call an earlier function'; all histories of length <=2 and length 3 with the third operation from the core alphabet (the function, bad-regex, '$'-less, failing-parameter, long and empty paths with no config / {f} / the shared object, rebind, re-call); BFS to fixpoint",
			"thorough": "as quick, plus: third operation also over the reduced alphabet (every path with the even-numbered configs, every third path with all) (the function, bad-regex, '$'-less and failing-parameter paths with no config / {f} / the shared object, rebind, re-call), and all histories of length 4 whose first operation ranges over the full alphabet and whose last three over the core alphabet; BFS to fixpoint",
		},
		New: newC19,
		Replay: func(cs map[string]interface{}) (bool, string) {
			sched.Install()
			var seq []int
			if l, ok := cs["log"].([]interface{}); ok {
				for _, x := range l {
					var n int
					fmt.Sscan(fmt.Sprint(x), &n)
					seq = append(seq, n)
				}
			}
			want, _ := cs["expected"].(string)
			got := c19Replay(seq)
			return got != want, fmt.Sprintf("the last operation gave %q, performed first in a fresh process it gives %q", got, want)
		},
	})
}
