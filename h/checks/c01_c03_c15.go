package checks

import (
	"fmt"
	"strings"

	"github.com/AsaiYusuke/jsonpath"

	"verif/h/gen"
	"verif/h/impl"
	"verif/h/run"
	"verif/h/spec"
	"verif/h/suite"
)

func newProduct(id, tier string, needModel bool, o oracleFn, extra ...gen.Ladder) *productJob {
	return &productJob{
		id:                   id,
		units:                unitsOf(append(stdLadders(tier), extra...)),
		ds:                   newDocSet(stdDocSpec(tier), []int{modeFloat, modeNumber}),
		env:                  impl.NewEnv(),
		oracle:               o,
		needModel:            needModel,
		parseFailIsViolation: id == "C01",
	}
}

func productBounds(what string) map[string]string {
	return map[string]string{
		"quick":    what + ": all paths of <=2 steps over the 55-step alphabet (each also with each of 7 single trailing functions) in both decodings, and all paths of 3..4 steps over the 16-step alphabet (float64 decoding), x every JSON document of <=4 nodes plus wide and member documents; every filter atom and pairwise combination under $.c on the member documents; over keys {a,b}, scalars {1,2,\"a\",true,null}, arrays <=3",
		"thorough": what + ": all paths of <=2 steps over the 55-step alphabet (+ single trailing functions) x every document of <=5 nodes, wide and member documents, both decodings; all paths of 3 steps over the 55-step alphabet, 4 over the 16-step and 5 over the 8-step alphabet x every document of <=4 nodes; every filter atom and pairwise combination under $.c on the member documents",
	}
}

// ---------------------------------------------------------------------------
// C01: values, order, multiplicity = model; fails iff the model selects nothing.

func c01Judge(out *spec.Outcome, res impl.CallResult) (ok bool, kind, detail string) {
	want := out.Values()
	switch {
	case res.Panic != "":
		return false, "panic", "panic: " + res.Panic
	case len(want) > 0:
		if res.ErrType != "" {
			return false, "unexpected-error", fmt.Sprintf("model selects %s but retrieval failed with %s: %s", show(want), res.ErrType, res.ErrMsg)
		}
		if !sameValues(res.Values, want) {
			return false, "values", fmt.Sprintf("returned %s, step-by-step definition selects %s", show(res.Values), show(want))
		}
	default:
		if res.ErrType == "" {
			return false, "unexpected-success", fmt.Sprintf("model selects nothing but retrieval returned %s", show(res.Values))
		}
	}
	return true, "", ""
}

func c01Oracle(j *productJob, c *run.Ctx, pc *pathCase, di, m int, out *spec.Outcome, res impl.CallResult) {
	if out.Unspec {
		c.Add("unspecified_skipped", 1)
		return
	}
	c.Outcome(res.Key())
	if len(out.Nodes) > 0 {
		c.Nontrivial++
	}
	ok, kind, detail := c01Judge(out, res)
	if ok && di%61 == 0 {
		// the one-shot wrapper Retrieve(path, doc, config) must agree with Parse(path)(doc): checked on
		// every 61st document of every path (a fixed sub-bound, not a sample)
		rr := retrieveOnce(pc.r.Text, j.ds.docs[m][di], j.env)
		c.Add("retrieve_wrapper_compared", 1)
		if rr.ErrType != res.ErrType || rr.ErrMsg != res.ErrMsg || !sameValues(rr.Values, res.Values) || rr.Panic != "" {
			ok, kind, detail = false, "retrieve-wrapper", fmt.Sprintf("Retrieve(path, doc) gives %s %s %s, Parse(path)(doc) gives %s %s", show(rr.Values), rr.ErrType, rr.Panic, show(res.Values), res.ErrType)
		}
	}
	if ok {
		if len(out.Nodes) > 1 {
			c.Sample(map[string]interface{}{"path": pc.r.Text, "doc": j.ds.text[di], "mode": modeName[m], "result": show(res.Values)})
		}
		return
	}
	if kind == "retrieve-wrapper" {
		c.Violate(run.Violation{
			Sig:    kind + ":" + gen.Shape(pc.p),
			Detail: fmt.Sprintf("%s on %s (%s): %s", pc.r.Text, j.ds.text[di], modeName[m], detail),
			Size:   len(pc.r.Text)*100 + len(j.ds.text[di]),
			Case: func() map[string]interface{} {
				cs := caseOfP("C01", pc.p, pc.r.Text, j.ds.text[di], m, "funcs")
				cs["wrapper"] = true
				return cs
			}(),
		})
		return
	}
	// judge only a fresh evaluation (new Parse, fresh document): DESIGN §5
	fres, fdoc := j.freshEval(pc.r.Text, m, di)
	fout := spec.Eval(pc.p, fdoc, j.env.Model)
	if fok, fkind, fdetail := c01Judge(&fout, fres); fok {
		// once more as the first call of a new process would run: with empty pools
		cres, cdoc := j.freshEvalCold(pc.r.Text, m, di)
		cout := spec.Eval(pc.p, cdoc, j.env.Model)
		cok, ckind, cdetail := c01Judge(&cout, cres)
		if cok {
			c.Add("history_dependence_seen", 1)
			return
		}
		kind, detail = ckind, cdetail+" (with empty pools, as in a new process)"
	} else {
		kind, detail = fkind, fdetail
	}
	c.Violate(run.Violation{
		Sig:    kind + ":" + gen.Shape(pc.p),
		Detail: fmt.Sprintf("%s on %s (%s): %s", pc.r.Text, j.ds.text[di], modeName[m], detail),
		Size:   len(pc.r.Text)*100 + len(j.ds.text[di]),
		Case:   caseOfP("C01", pc.p, pc.r.Text, j.ds.text[di], m, "funcs"),
	})
}

func retrieveOnce(path string, doc interface{}, env *impl.Env) (r impl.CallResult) {
	defer func() {
		if e := recover(); e != nil {
			r.Panic = fmt.Sprint(e)
		}
	}()
	vs, err := jsonpath.Retrieve(path, doc, env.Cfg)
	r.Values, r.NilVals, r.ErrType = vs, vs == nil, impl.ErrType(err)
	if err != nil {
		r.ErrMsg = err.Error()
	}
	return
}

// ---------------------------------------------------------------------------
// C03: totality of evaluation (invariant on every execution; no model needed).

func c03Judge(res impl.CallResult, funcErrs int) (ok bool, kind, detail string) {
	switch {
	case res.Panic != "":
		return false, "panic", "the parsed function panicked: " + res.Panic
	case res.ErrType == "":
		if len(res.Values) == 0 {
			return false, "empty-success", "returned an empty result with a nil error"
		}
	default:
		if !impl.IsRuntimeErrType(res.ErrType) {
			return false, "undocumented-error", "error of undocumented type " + res.ErrType + ": " + res.ErrMsg
		}
		if !res.NilVals {
			return false, "values-with-error", "returned a non-nil slice together with an error"
		}
		if res.ErrType == "ErrorFunctionFailed" && funcErrs == 0 {
			return false, "spurious-function-failed", "ErrorFunctionFailed although no user function returned an error"
		}
	}
	return true, "", ""
}

func c03Oracle(j *productJob, c *run.Ctx, pc *pathCase, di, m int, out *spec.Outcome, res impl.CallResult) {
	c.Outcome(res.Key())
	if res.ErrType != "" {
		c.Nontrivial++
	}
	funcErrs := j.env.ImplFuncErrs
	ok, kind, detail := c03Judge(res, funcErrs)
	wrapper := false
	if ok && reentrantPath(pc.p) {
		// paths whose user function calls back into the library are also evaluated through the
		// one-shot Retrieve (which parses and evaluates in one call): it must be as total, and it
		// must return (a call that never returns is caught by the per-case watchdog)
		j.env.ResetImpl()
		rr := retrieveOnce(pc.r.Text, j.ds.docs[m][di], j.env)
		c.Evals++
		if wok, wkind, wdetail := c03Judge(rr, j.env.ImplFuncErrs); !wok {
			ok, kind, detail, wrapper = false, "retrieve-"+wkind, "through Retrieve(path, doc, config): "+wdetail, true
		}
	}
	if ok {
		if res.ErrType == "ErrorTypeUnmatched" {
			c.Sample(map[string]interface{}{"path": pc.r.Text, "doc": j.ds.text[di], "mode": modeName[m], "error": res.ErrMsg})
		}
		return
	}
	c.Violate(run.Violation{
		Sig:    kind + ":" + gen.Shape(pc.p),
		Detail: fmt.Sprintf("%s on %s (%s): %s", pc.r.Text, j.ds.text[di], modeName[m], detail),
		Size:   len(pc.r.Text)*100 + len(j.ds.text[di]),
		Case: func() map[string]interface{} {
			cs := caseOf("C03", pc.r.Text, j.ds.text[di], m, "funcs")
			if wrapper {
				cs["wrapper"] = true
			}
			return cs
		}(),
	})
}

// reentrantPath: some function of the path calls back into the library (gre, fre).
func reentrantPath(p *gen.Path) bool {
	for _, f := range p.Funcs {
		if strings.HasPrefix(f, "gre") || strings.HasPrefix(f, "fre") {
			return true
		}
	}
	return false
}

// ---------------------------------------------------------------------------
// C15: the reported error is in the model's candidate set.

func c15Judge(out *spec.Outcome, pos []string, res impl.CallResult) (ok bool, kind, detail string) {
	if res.Panic != "" || res.ErrType == "" || len(out.Nodes) > 0 {
		return true, "", "" // not a failing case in both views: C01/C03 territory
	}
	cands := spec.CandidateMessages(out.Fails, pos)
	for _, cm := range cands {
		if cm[0] == res.ErrType && cm[1] == res.ErrMsg {
			return true, "", ""
		}
	}
	return false, "wrong-error", fmt.Sprintf("reported %s %q; failures at the deepest failing step are %v", res.ErrType, res.ErrMsg, cands)
}

func c15Oracle(j *productJob, c *run.Ctx, pc *pathCase, di, m int, out *spec.Outcome, res impl.CallResult) {
	if out.Unspec {
		c.Add("unspecified_skipped", 1)
		return
	}
	if len(out.Nodes) > 0 || res.ErrType == "" {
		c.Add("successful_cases_not_judged", 1)
		return
	}
	c.Outcome(res.ErrType)
	c.Nontrivial++
	ok, kind, detail := c15Judge(out, pc.r.Pos, res)
	if ok {
		if len(out.Fails) > 2 {
			c.Sample(map[string]interface{}{"path": pc.r.Text, "doc": j.ds.text[di], "mode": modeName[m], "error": res.ErrMsg, "candidates": spec.CandidateMessages(out.Fails, pc.r.Pos)})
		}
		return
	}
	fres, fdoc := j.freshEval(pc.r.Text, m, di)
	fout := spec.Eval(pc.p, fdoc, j.env.Model)
	if fok, _, fdetail := c15Judge(&fout, pc.r.Pos, fres); fok {
		c.Add("history_dependence_seen", 1)
		return
	} else {
		detail = fdetail
	}
	c.Violate(run.Violation{
		Sig:    kind + ":" + gen.Shape(pc.p),
		Detail: fmt.Sprintf("%s on %s (%s): %s", pc.r.Text, j.ds.text[di], modeName[m], detail),
		Size:   len(pc.r.Text)*100 + len(j.ds.text[di]),
		Case:   caseOfP("C15", pc.p, pc.r.Text, j.ds.text[di], m, "funcs"),
	})
}

func init() {
	run.Register(&run.Check{
		ID:    "C01",
		Level: "model_checking",
		Rule:  "every (path, document, decoding) of the bounded product is a distinct case; non-trivial = the reference model selects at least one value",
		Assumptions: []string{
			"the reference model (h/spec) transcribes the step-by-step definition of the property; cases the properties leave open (path==path with both operands absent for this member but present for another) are skipped and counted",
			"paths longer than 5 steps, documents over 5 nodes and keys other than a/b are not explored",
		},
		Bounds: productBounds("C01"),
		New:    func(tier string) run.Job { return newProduct("C01", tier, true, c01Oracle) },
		Finish: func(tier string, total *run.Ctx, cov map[string]interface{}) {
			// the model is replayed on the repository's own pinned expectations (never a VIOLATION by itself)
			if r, err := suite.Replay(repoDir); err != nil {
				cov["model_suite_agreement"] = "not available: " + err.Error()
			} else {
				cov["model_suite_agreement"] = fmt.Sprintf("%d/%d reconstructable cases of test_jsonpath_test.go reproduced by the model (%d skipped: custom validators/helpers; %d open cases)", r.Agree, r.Total-r.Skipped-r.Unspecified, r.Skipped, r.Unspecified)
				if len(r.Disagreements) > 0 {
					cov["model_suite_disagreements"] = r.Disagreements
				}
			}
		},
		Replay: func(cs map[string]interface{}) (bool, string) {
			return replayProduct(cs, func(path string, p *gen.Path, doc interface{}, env *impl.Env) (bool, string) {
				if p == nil {
					return false, "path not in the ladders"
				}
				pr := impl.Parse(path, &env.Cfg)
				if pr.F == nil {
					return true, "Parse rejected a supported path: " + pr.ErrType + " " + pr.ErrMsg + pr.Panic
				}
				out := spec.Eval(p, doc, env.Model)
				res := impl.Call(pr.F, doc)
				if cs["wrapper"] == true {
					rr := retrieveOnce(path, doc, env)
					bad := rr.ErrType != res.ErrType || rr.ErrMsg != res.ErrMsg || !sameValues(rr.Values, res.Values) || rr.Panic != ""
					return bad, fmt.Sprintf("Retrieve gives %s %s, Parse()() gives %s %s", show(rr.Values), rr.ErrType, show(res.Values), res.ErrType)
				}
				ok, _, detail := c01Judge(&out, res)
				return !ok, detail
			})
		},
	})
	run.Register(&run.Check{
		ID:    "C03",
		Level: "model_checking",
		Rule:  "every (path, document, decoding) of the bounded product is a distinct execution; non-trivial = the call fails (the error branch of the invariant is exercised)",
		Assumptions: []string{
			"invariant checked on every execution: no panic; exactly one of (non-empty slice, nil) or (nil slice, documented runtime error); ErrorFunctionFailed only when a user function failed",
			"integer-boundary subscripts are explored by C11; non-JSON values by C20",
		},
		Bounds: productBounds("C03"),
		New: func(tier string) run.Job {
			// integer-boundary subscripts, alone and after/before every mid-alphabet step
			nb := len(gen.SigmaBoundary())
			alpha := append(gen.SigmaBoundary(), gen.SigmaMid()...)
			isB := func(s *gen.Step) bool {
				for i := 0; i < nb; i++ {
					if gen.Render(gen.P('$', alpha[i]), nil).Text == gen.Render(gen.P('$', *s), nil).Text {
						return true
					}
				}
				return false
			}
			bnd := gen.Ladder{Alpha: alpha, Depth: 2, Modes: []int{modeFloat}, Keep: func(p *gen.Path) bool {
				for i := range p.Steps {
					if isB(&p.Steps[i]) {
						return true
					}
				}
				return false
			}}
			j := newProduct("C03", tier, false, c03Oracle, bnd)
			// numbers at the edge of float64 next to ordinary numbers (1e999 is not representable:
			// the float64 decoder turns... rejects it, so such texts are spelled 1e308 / 1e-400 here and
			// the json.Number decoding additionally gets the unrepresentable spellings below)
			for _, text := range []string{`[{"a":1e308},{"a":5}]`, `{"a":1e308,"b":1}`, `[1e308,1]`, `[{"a":-1e308,"b":1e308},{"a":1,"b":2}]`, `[{"a":1e-400},{"a":2}]`, `{"a":{"a":1e308},"b":{"a":2}}`} {
				j.ds.text = append(j.ds.text, text)
				for _, m := range j.ds.modes {
					d := decodeDoc(text, m)
					j.ds.docs[m] = append(j.ds.docs[m], d)
					j.ds.pristine[m] = append(j.ds.pristine[m], gen.Clone(d))
				}
			}
			return j
		},
		Finish: func(tier string, total *run.Ctx, cov map[string]interface{}) {
			// the invariant is evaluated on executions of the implementation; each execution is a
			// state of the explored space and each call a transition
			cov["states"] = total.Evals
			cov["transitions"] = total.Evals
			cov["traces_validated_against_impl"] = total.Traces
		},
		Replay: func(cs map[string]interface{}) (bool, string) {
			return replayProduct(cs, func(path string, p *gen.Path, doc interface{}, env *impl.Env) (bool, string) {
				pr := impl.Parse(path, &env.Cfg)
				if pr.F == nil {
					return false, "does not parse"
				}
				res := impl.Call(pr.F, doc)
				fe := env.ImplFuncErrs
				if cs["wrapper"] == true {
					env.ResetImpl()
					res = retrieveOnce(path, doc, env)
					fe = env.ImplFuncErrs
				}
				ok, _, detail := c03Judge(res, fe)
				return !ok, detail
			})
		},
	})
	run.Register(&run.Check{
		ID:    "C15",
		Level: "model_checking",
		Rule:  "every failing (path, document, decoding) of the bounded product is a distinct case; non-trivial = both the model and the library fail",
		Assumptions: []string{
			"candidate set = failures the model records at the deepest failing position, restricted to non-type failures when there is one; error text compared verbatim (type, step text as written, expected, found)",
		},
		Bounds: func() map[string]string {
			b := productBounds("C15")
			b["quick"] = strings.Replace(b["quick"], "3..4 steps", "3 steps", 1)
			return b
		}(),
		New: func(tier string) run.Job {
			j := newProduct("C15", tier, true, c15Oracle)
			j.units = shallowQuick(tier, j.units)
			return j
		},
		Replay: func(cs map[string]interface{}) (bool, string) {
			return replayProduct(cs, func(path string, p *gen.Path, doc interface{}, env *impl.Env) (bool, string) {
				if p == nil {
					return false, "path not in the ladders"
				}
				pr := impl.Parse(path, &env.Cfg)
				if pr.F == nil {
					return false, "does not parse"
				}
				out := spec.Eval(p, doc, env.Model)
				ok, _, detail := c15Judge(&out, gen.Render(p, nil).Pos, impl.Call(pr.F, doc))
				return !ok, detail
			})
		},
	})
}
