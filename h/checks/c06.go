//go:build verif

package checks

import (
	"fmt"
	"os"
	"os/exec"
	"path/filepath"
	"sort"
	"strings"
	"sync"

	"verif/h/conc"
	"verif/h/run"
	"verif/h/sched"
)

// C06: Parse and parsed functions are safe for concurrent use. Decided by exhaustive
// exploration of all schedules (and pool answers) of small drivers up to a deviation bound,
// on the instrumented build; a separate free-running -race pass (h/cmd/racepass) covers the
// unsynchronised accesses that a cooperative scheduler cannot see.

type c06Job struct {
	tier string
	scs  []conc.Scenario
}

func newC06(tier string) run.Job {
	sched.Install()
	return &c06Job{tier: tier, scs: conc.Scenarios(tier)}
}

func (j *c06Job) NumUnits() int { return len(j.scs) }
func (j *c06Job) Describe(i int) map[string]interface{} {
	return map[string]interface{}{"unit": i, "scenario": j.scs[i].Name, "sig": "scenario:" + j.scs[i].Name}
}

// phases: (granularity, bound) pairs explored in order, cheapest first.
type c06Phase struct {
	coarse bool
	bound  int
}

func (j *c06Job) phases(sc *conc.Scenario) []c06Phase {
	if strings.HasPrefix(sc.Name, "S7 ") || strings.HasPrefix(sc.Name, "S7e ") || strings.HasPrefix(sc.Name, "S8 ") {
		// the generated family: one driver per ladder path
		if j.tier == "thorough" {
			return []c06Phase{{false, 0}, {true, 1}, {false, 1}, {true, 2}}
		}
		return []c06Phase{{false, 0}, {true, 1}, {false, 1}}
	}
	if j.tier == "thorough" {
		if len(sc.Threads) == 2 {
			return []c06Phase{{false, 0}, {false, 1}, {true, 2}, {false, 2}, {true, 3}}
		}
		return []c06Phase{{false, 0}, {false, 1}, {true, 2}, {true, 3}}
	}
	return []c06Phase{{false, 0}, {false, 1}, {true, 2}}
}

func choicesString(cs []int) string {
	var sb strings.Builder
	for i, c := range cs {
		if i > 0 {
			sb.WriteByte(',')
		}
		fmt.Fprintf(&sb, "%d", c)
	}
	return sb.String()
}

func trimChoices(cs []int) []int {
	n := len(cs)
	for n > 0 && cs[n-1] == 0 {
		n--
	}
	return cs[:n]
}

func c06RunOnce(sc *conc.Scenario, prefix []int, coarse bool) (*sched.Exec, *conc.World) {
	sched.ResetPools()
	wd := sc.Build()
	bodies := make([]func(), len(sc.Threads))
	for t := range bodies {
		bodies[t] = wd.Body(t)
	}
	opt := sched.Options{PoolChoices: true}
	if coarse {
		opt.PointFilter = sched.CoarsePoints
	}
	x := sched.Run(opt, prefix, bodies)
	return x, wd
}

func c06Judge(sc *conc.Scenario, x *sched.Exec, wd *conc.World, expected [][]string) (ok bool, kind, detail string) {
	if x.Deadlock {
		return false, "deadlock", "no enabled thread while some are unfinished"
	}
	if x.Horizon {
		return false, "horizon", "execution exceeded the step horizon (livelock?)"
	}
	for t, p := range x.Panics {
		if p != "" {
			return false, "panic", fmt.Sprintf("thread %d panicked: %s", t, p)
		}
	}
	if ok, d := wd.Check(expected); !ok {
		return false, "result", d
	}
	return true, "", ""
}

func (j *c06Job) RunUnit(i int, c *run.Ctx) {
	sc := &j.scs[i]
	expected := sc.Expected()
	outcomes := map[string]bool{}
	violated := false
	maxExecs := 300000
	gran := map[bool]string{false: "all points", true: "coarse points"}
	for _, ph := range j.phases(sc) {
		ph := ph
		st := sched.Explore(ph.bound, maxExecs, func(prefix []int) *sched.Exec {
			c.Tick()
			x, wd := c06RunOnce(sc, prefix, ph.coarse)
			ok, kind, detail := c06Judge(sc, x, wd, expected)
			key := fmt.Sprint(wd.Outcomes)
			outcomes[key] = true
			if !ok && !violated {
				// replay the same schedule twice: identical observation required before reporting
				ch := trimChoices(append([]int{}, x.Choices...))
				x2, wd2 := c06RunOnce(sc, ch, ph.coarse)
				ok2, _, detail2 := c06Judge(sc, x2, wd2, expected)
				if ok2 || detail2 != detail || fmt.Sprint(wd2.Outcomes) != key {
					c.Add("nondeterministic_replays", 1)
				} else {
					violated = true
					c.Violate(run.Violation{
						Sig:    kind + ":" + sc.Name,
						Detail: fmt.Sprintf("%s, schedule [%s] (%s, %d deviations): %s", sc.Name, choicesString(ch), gran[ph.coarse], x.Cost(len(x.Choices)), detail),
						Size:   len(ch)*10 + x.Cost(len(x.Choices))*1000,
						Case:   map[string]interface{}{"scenario": sc.Name, "choices": choicesString(ch), "tier": j.tier, "coarse": ph.coarse},
					})
				}
			}
			return x
		}, func(x *sched.Exec) bool { return !violated })
		if os.Getenv("VERIF_DEBUG") != "" {
			fmt.Fprintf(os.Stderr, "C06 %-70s coarse=%v bound=%d execs=%d maxpoints=%d maxsteps=%d\n", sc.Name, ph.coarse, ph.bound, st.Execs, st.MaxPoints, st.MaxSteps)
		}
		c.Evals += int64(st.Execs)
		c.States += int64(st.Execs)
		c.Transitions += int64(st.Execs) * int64(st.MaxPoints)
		c.Traces += int64(st.Execs)
		c.Add(fmt.Sprintf("schedules_%s_bound%d", strings.ReplaceAll(gran[ph.coarse], " ", "_"), ph.bound), int64(st.Execs))
		if st.Capped {
			c.Add("scenarios_capped", 1)
		}
		if st.Diverged != "" {
			c.Add("divergences", 1)
			c.Violate(run.Violation{Sig: "internal-divergence:" + sc.Name, Detail: "prefix replay diverged: " + st.Diverged, Size: 1,
				Case: map[string]interface{}{"scenario": sc.Name, "choices": "", "tier": j.tier, "internal": true}})
		}
		if violated {
			break
		}
	}
	c.Add("distinct_observed_outcomes", int64(len(outcomes)))
	if len(outcomes) > 0 {
		c.Nontrivial++
	}
	c.Outcome(fmt.Sprintf("threads=%d/outcomes=%d", len(sc.Threads), min(len(outcomes), 3)))
	if i%9 == 0 {
		c.Sample(map[string]interface{}{"scenario": sc.Name, "phases": fmt.Sprint(j.phases(sc)), "expected_outcomes": expected})
	}
}

func parseChoices(s string) []int {
	var out []int
	for _, f := range strings.Split(s, ",") {
		if f == "" {
			continue
		}
		n := 0
		fmt.Sscanf(f, "%d", &n)
		out = append(out, n)
	}
	return out
}

func init() {
	run.Register(&run.Check{
		ID:    "C06",
		Level: "model_checking",
		Rule:  "every schedule (thread interleaving at scheduling points + pool answers) of every driver with at most `bound` deviations is one execution; a driver is non-trivial if it completed at least one execution; distinct observed outcomes are counted per driver",
		Assumptions: []string{
			"scheduling points: every Mutex.Lock/Unlock, Pool.Get/Put, the entry of every named function of the package and every statement that uses sync/atomic (none in the library today), all inserted mechanically by vinstr; accesses between two points are atomic for the explorer and are covered by the separate free-running -race pass (h/cmd/racepass), which is a happens-before detector on sampled schedules",
			"every execution starts from freshly parsed functions and freshly decoded documents; pools are emptied",
			"a failing schedule is replayed and must reproduce identically before it is reported",
		},
		Bounds: map[string]string{
			"quick":    "drivers: 51 shared-function pairs (one per node/comparator/logical/function kind; outcome-flipping documents) and 12 more with two succeeding documents of different sizes, 64 Parse||Parse pairs, 48 Parse||call, 16 three-thread, 8 two-functions-one-document, 10 two-operations-per-thread, and one generated driver for EVERY path of <=1 step over the full step alphabet (functions included) and every two-step path over the mid alphabet (674: a shared parsed function called by two threads on two documents picked by exhaustive scoring - both succeed, root containers of different sizes where possible; for the one-step paths also a driver in which both calls fail with a type error naming different found types), 4 drivers that first evaluate an object of 70 members and then two small ones concurrently, 7 drivers on documents whose leaves have Go types the process has never seen before (one per kind of step applied to them); all schedules with <=1 deviation (preemption or non-default pool answer) at every scheduling point, and <=2 deviations at coarse points (lock/pool operations, public API, parser phases, every retrieve/compute method)",
			"thorough": "144 Parse||Parse pairs; two-thread drivers: <=2 deviations at every point and <=3 at coarse points; three-thread drivers: <=1 at every point, <=3 at coarse points; generated drivers for every path of <=2 steps over the full alphabet (about 3k), <=1 deviation at every point and <=2 at coarse points",
		},
		New:   newC06,
		Extra: c06RacePass,
		Replay: func(cs map[string]interface{}) (bool, string) {
			sched.Install()
			name, _ := cs["scenario"].(string)
			tier, _ := cs["tier"].(string)
			chs, _ := cs["choices"].(string)
			if cs["internal"] == true {
				return false, "internal divergence records are not replayable"
			}
			for _, sc := range conc.Scenarios(tier) {
				if sc.Name != name {
					continue
				}
				sc := sc
				coarse, _ := cs["coarse"].(bool)
				x, wd := c06RunOnce(&sc, parseChoices(chs), coarse)
				ok, _, detail := c06Judge(&sc, x, wd, sc.Expected())
				return !ok, detail
			}
			return false, "scenario not found"
		},
	})
}

// c06RacePass builds the free-running driver with -race against the plain package and runs
// every scenario with 1x, 2x and 8x replicated threads (2..24 goroutines), barrier start.
func c06RacePass(tier string, cov map[string]interface{}) []run.Violation {
	vdir := run.VerifDir()
	bin := filepath.Join(vdir, "bin", "racepass")
	args := []string{"build", "-race", "-o", bin}
	if mf := os.Getenv("VERIF_MODFILE"); mf != "" {
		args = append(args, "-modfile="+mf)
		bin += "-alt"
		args[3] = bin
	}
	build := exec.Command("go", append(args, "./cmd/racepass")...)
	build.Dir = filepath.Join(vdir, "h")
	build.Env = append(os.Environ(), "CGO_ENABLED=1")
	if out, err := build.CombinedOutput(); err != nil {
		cov["race_pass"] = "could not be built: " + firstLineOf(string(out))
		return nil
	}
	// the drivers are split into 12 contiguous ranges, one process each, in parallel
	total := len(conc.Scenarios(tier))
	const shards = 12
	var mu sync.Mutex
	var wg sync.WaitGroup
	var vs []run.Violation
	scenariosRun, goroutines := 0, 0
	for sh := 0; sh < shards; sh++ {
		lo, hi := total*sh/shards, total*(sh+1)/shards
		wg.Add(1)
		go func(lo, hi int) {
			defer wg.Done()
			v, n, g := c06RaceRange(bin, tier, lo, hi)
			mu.Lock()
			vs = append(vs, v...)
			scenariosRun += n
			goroutines += g
			mu.Unlock()
		}(lo, hi)
	}
	wg.Wait()
	driverRuns := scenariosRun
	// the shared-document product: every short path, two goroutines on one document object
	sharedPaths, sharedDocs := conc.SharedDocProduct(tier)
	sharedRuns := 0
	for sh := 0; sh < shards; sh++ {
		lo, hi := len(sharedPaths)*sh/shards, len(sharedPaths)*(sh+1)/shards
		wg.Add(1)
		go func(lo, hi int) {
			defer wg.Done()
			v, n, g := c06RaceRangeMode(bin, tier, "shared", lo, hi)
			mu.Lock()
			vs = append(vs, v...)
			sharedRuns += n
			goroutines += g
			mu.Unlock()
		}(lo, hi)
	}
	wg.Wait()
	cov["race_pass_shared_documents"] = fmt.Sprintf("%d paths x %d documents, each evaluated by three goroutines at once on one document object (any write to caller data is a race)", sharedRuns, len(sharedDocs))
	sort.Slice(vs, func(a, b int) bool { return vs[a].Sig < vs[b].Sig })
	cov["race_pass"] = fmt.Sprintf("free-running -race pass over %d driver runs (threads replicated 1x/2x/8x, barrier start) and the shared-document product: %d race/crash reports; this is a sampled happens-before check, not part of the exhaustive count", driverRuns, len(vs))
	cov["race_pass_goroutines"] = goroutines
	return vs
}

// c06RaceRange runs the drivers [lo,hi) in one racepass process, restarting after the driver
// at which the runtime reported a race (the report ends the process).
func c06RaceRange(bin, tier string, lo, hi int) (vs []run.Violation, scenariosRun, goroutines int) {
	return c06RaceRangeMode(bin, tier, "from", lo, hi)
}

// c06RaceRangeMode: mode "from" = drivers, mode "shared" = the shared-document product
// (conc.SharedDocProduct: two goroutines evaluate one path on ONE document object).
func c06RaceRangeMode(bin, tier, mode string, lo, hi int) (vs []run.Violation, scenariosRun, goroutines int) {
	from := lo
	for tries := 0; tries < 40 && from < hi; tries++ {
		cmd := exec.Command(bin, tier, fmt.Sprintf("%s:%d:%d", mode, from, hi))
		cmd.Env = append(os.Environ(), "GORACE=halt_on_error=1 exitcode=66")
		var stderr strings.Builder
		cmd.Stderr = &stderr
		out, err := cmd.Output()
		last, lastName := -1, ""
		for _, line := range strings.Split(string(out), "\n") {
			var idx int
			if n, _ := fmt.Sscanf(line, "SHARED %d", &idx); n == 1 {
				last = idx
				lastName = "shared document, two goroutines: " + strings.TrimSpace(strings.SplitN(line, " ", 3)[2])
				scenariosRun++
			}
			if n, _ := fmt.Sscanf(line, "SCENARIO %d", &idx); n == 1 {
				last = idx
				lastName = strings.TrimSpace(strings.SplitN(line, " ", 3)[2])
				scenariosRun++
			}
			var a, b int
			if n, _ := fmt.Sscanf(line, "DONE scenarios=%d goroutines=%d", &a, &b); n == 2 {
				goroutines += b
			}
			if strings.HasPrefix(line, "MISMATCH") {
				vs = append(vs, run.Violation{Sig: "race-pass-result:" + lastName, Detail: "free-running pass: " + line, Size: 5000,
					Case: map[string]interface{}{"scenario": lastName, "racepass": true, "command": fmt.Sprintf("%s %s %d", bin, tier, last)}})
			}
		}
		if err == nil {
			break
		}
		report := stderr.String()
		kind := "race-pass-crash"
		if strings.Contains(report, "DATA RACE") {
			kind = "data-race"
		}
		if len(report) > 1500 {
			report = report[:1500]
		}
		vs = append(vs, run.Violation{Sig: kind + ":" + lastName, Detail: fmt.Sprintf("free-running -race pass, driver %q: %s", lastName, strings.ReplaceAll(report, "\n", " | ")), Size: 4000,
			Case: map[string]interface{}{"scenario": lastName, "racepass": true, "command": fmt.Sprintf("GORACE=halt_on_error=1 %s %s %d", bin, tier, last)}})
		if last < 0 {
			break
		}
		from = last + 1
	}
	return
}

func firstLineOf(s string) string {
	s = strings.TrimSpace(s)
	if i := strings.IndexByte(s, '\n'); i >= 0 {
		s = s[:i]
	}
	return s
}
