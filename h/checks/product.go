// Package checks holds one exhaustive check per property.
package checks

import (
	"bytes"
	"encoding/json"
	"fmt"
	"github.com/AsaiYusuke/jsonpath"
	"reflect"
	"runtime"
	"strings"

	"verif/h/gen"
	"verif/h/impl"
	"verif/h/run"
	"verif/h/spec"
)

// ---------------------------------------------------------------------------
// helpers shared by the checks

const (
	modeFloat  = 0
	modeNumber = 1
)

var modeName = [...]string{"float64", "json.Number"}

// decodeDoc decodes JSON text in the given mode.
func decodeDoc(text string, mode int) interface{} {
	if mode == modeNumber {
		// 1e308 in a document text stands for "a number at the edge": under UseNumber the
		// decoder also accepts spellings that do not fit float64 at all, which is what is wanted there
		text = strings.ReplaceAll(text, "1e308", "1e400")
	}
	dec := json.NewDecoder(strings.NewReader(text))
	if mode == modeNumber {
		dec.UseNumber()
	}
	var v interface{}
	if err := dec.Decode(&v); err != nil {
		panic("decodeDoc: " + err.Error() + ": " + text)
	}
	return v
}

// sameJSON is a fast structural equality for decoded-JSON-like values.
func sameJSON(a, b interface{}) bool {
	switch x := a.(type) {
	case nil:
		return b == nil
	case float64:
		y, ok := b.(float64)
		return ok && (x == y || (x != x && y != y))
	case string:
		y, ok := b.(string)
		return ok && x == y
	case bool:
		y, ok := b.(bool)
		return ok && x == y
	case json.Number:
		y, ok := b.(json.Number)
		return ok && x == y
	case map[string]interface{}:
		y, ok := b.(map[string]interface{})
		if !ok || len(x) != len(y) {
			return false
		}
		for k, v := range x {
			w, ok := y[k]
			if !ok || !sameJSON(v, w) {
				return false
			}
		}
		return true
	case []interface{}:
		y, ok := b.([]interface{})
		if !ok || len(x) != len(y) {
			return false
		}
		for i := range x {
			if !sameJSON(x[i], y[i]) {
				return false
			}
		}
		return true
	}
	// an Accessor produced by a user function: equal when it reads the same value and has a Set
	// function or not (the closures themselves are never identical)
	if x, ok := a.(jsonpath.Accessor); ok {
		y, ok := b.(jsonpath.Accessor)
		return ok && (x.Get == nil) == (y.Get == nil) && (x.Set == nil) == (y.Set == nil) && (x.Get == nil || sameJSON(x.Get(), y.Get()))
	}
	return sameOpaque(a, b)
}

// sameOpaque compares two non-JSON values: identity for reference kinds (functions, channels,
// maps, pointers, slices), deep equality otherwise.
func sameOpaque(a, b interface{}) bool {
	if a == nil || b == nil {
		return a == nil && b == nil
	}
	va, vb := reflect.ValueOf(a), reflect.ValueOf(b)
	if va.Type() != vb.Type() {
		return false
	}
	if fa, ok := a.(float64); ok {
		fb := b.(float64)
		return fa == fb || (fa != fa && fb != fb) // the same NaN leaf is the same value
	}
	switch va.Kind() {
	case reflect.Func, reflect.Chan, reflect.Map, reflect.Ptr, reflect.UnsafePointer:
		return va.Pointer() == vb.Pointer()
	case reflect.Slice:
		return va.Pointer() == vb.Pointer() && va.Len() == vb.Len()
	}
	return reflect.DeepEqual(a, b)
}

func sameValues(a, b []interface{}) bool {
	if len(a) != len(b) {
		return false
	}
	for i := range a {
		if !sameJSON(a[i], b[i]) {
			return false
		}
	}
	return true
}

func show(vs []interface{}) string {
	var sb bytes.Buffer
	sb.WriteByte('[')
	for i, v := range vs {
		if i > 0 {
			sb.WriteByte(',')
		}
		sb.WriteString(showVal(v))
	}
	sb.WriteByte(']')
	s := sb.String()
	if len(s) > 300 {
		s = s[:300] + "..."
	}
	return s
}

func showVal(v interface{}) string {
	b, err := json.Marshal(v)
	if err != nil {
		return fmt.Sprintf("%#v", v)
	}
	return string(b)
}

func docSize(v interface{}) int {
	switch t := v.(type) {
	case map[string]interface{}:
		n := 1
		for _, x := range t {
			n += docSize(x)
		}
		return n
	case []interface{}:
		n := 1
		for _, x := range t {
			n += docSize(x)
		}
		return n
	}
	return 1
}

// docSet is an enumerated document set in both decodings with pristine copies.
type docSet struct {
	text     []string
	docs     [2][]interface{}
	pristine [2][]interface{}
	modes    []int
	// nCore: documents [0,nCore) are the node-bounded and wide documents; member documents follow
	nCore int
	// nSmall: documents [0,nSmall) have at most 4 nodes (Docs enumerates by node count)
	nSmall int
	// wideFrom: documents [wideFrom,nCore) are the wide and big documents (they belong to every
	// document subset)
	wideFrom int
	// spare: every array of the working documents has spare capacity, which must stay untouched
	spare bool
}

// indices lists the documents a ladder is evaluated on.
func (ds *docSet) indices(l *gen.Ladder) []int {
	var out []int
	switch {
	case l.SmallDocs && ds.nSmall > 0:
		for i := 0; i < ds.nSmall; i++ {
			out = append(out, i)
		}
		for i := ds.wideFrom; i < ds.nCore; i++ {
			out = append(out, i)
		}
	case l.CoreDocs && ds.nCore > 0:
		for i := 0; i < ds.nCore; i++ {
			out = append(out, i)
		}
	default:
		for i := 0; i < ds.n(); i++ {
			out = append(out, i)
		}
	}
	return out
}

func newDocSet(spec gen.DocSpec, modes []int) *docSet {
	base := append(append(append(gen.Docs(spec), gen.WideDocs()...), gen.BigDocs()...), gen.MemberDocs()...)
	ds := &docSet{modes: modes, nCore: len(base) - len(gen.MemberDocs()), wideFrom: len(gen.Docs(spec))}
	small := spec
	if small.MaxNodes > 4 {
		small.MaxNodes = 4
	}
	ds.nSmall = len(gen.Docs(small))
	for _, d := range base {
		ds.text = append(ds.text, gen.JSON(d))
	}
	for _, m := range modes {
		for _, d := range base {
			if m == modeNumber {
				ds.docs[m] = append(ds.docs[m], gen.ToNumber(d))
				ds.pristine[m] = append(ds.pristine[m], gen.ToNumber(d))
			} else {
				ds.docs[m] = append(ds.docs[m], gen.Clone(d))
				ds.pristine[m] = append(ds.pristine[m], gen.Clone(d))
			}
		}
	}
	return ds
}

func (ds *docSet) n() int { return len(ds.text) }

// restore rebuilds document i (mode m) if a call changed it; reports whether it had changed.
func (ds *docSet) restore(m, i int) bool {
	if sameJSON(ds.docs[m][i], ds.pristine[m][i]) && (!ds.spare || !spareDirty(ds.docs[m][i])) {
		return false
	}
	ds.docs[m][i] = gen.Clone(ds.pristine[m][i])
	if ds.spare {
		ds.docs[m][i] = withSpare(ds.docs[m][i])
	}
	return true
}

// withSpare rebuilds every array of a document with spare capacity (cap = 2*len+2, the spare
// slots nil): a library that appends to a re-sliced caller array writes there.
func withSpare(v interface{}) interface{} {
	switch t := v.(type) {
	case map[string]interface{}:
		for k, x := range t {
			t[k] = withSpare(x)
		}
		return t
	case []interface{}:
		a := make([]interface{}, len(t), 2*len(t)+2)
		for i, x := range t {
			a[i] = withSpare(x)
		}
		return a
	}
	return v
}

// spareDirty reports whether some array of the document has a non-nil value in its spare
// capacity (written beyond its length).
func spareDirty(v interface{}) bool {
	switch t := v.(type) {
	case map[string]interface{}:
		for _, x := range t {
			if spareDirty(x) {
				return true
			}
		}
	case []interface{}:
		for _, x := range t[:cap(t)][len(t):] {
			if x != nil {
				return true
			}
		}
		for _, x := range t {
			if spareDirty(x) {
				return true
			}
		}
	}
	return false
}

// ---------------------------------------------------------------------------
// the (paths x documents) product engine used by C01, C03, C15 ...

// pathCase is one parsed path ready to be evaluated on many documents.
type pathCase struct {
	p    *gen.Path
	r    gen.Rendered
	f    impl.Func
	fAcc impl.Func // parsed with accessor mode (only if the job asks for it)
}

type oracleFn func(j *productJob, c *run.Ctx, pc *pathCase, di, mode int, out *spec.Outcome, res impl.CallResult)

type productJob struct {
	id     string
	units  []gen.Unit
	ds     *docSet
	env    *impl.Env
	oracle oracleFn
	// needModel: evaluate the reference model for each case
	needModel bool
	// onParseFail is called when a generated path does not parse
	parseFailIsViolation bool
	// needAcc: also parse every path with accessor mode
	needAcc bool
	// skipPlain: the oracle makes its own calls; do not call the plain function first
	skipPlain bool
}

func (j *productJob) NumUnits() int { return len(j.units) }

func (j *productJob) Describe(i int) map[string]interface{} {
	u := j.units[i]
	var texts []string
	for _, p := range u.Paths() {
		texts = append(texts, gen.Render(p, nil).Text)
	}
	pre := gen.Render(&gen.Path{Root: '$', Steps: u.Prefix}, nil).Text
	return map[string]interface{}{"unit": i, "prefix": pre, "paths": texts, "sig": "unit:" + pre}
}

// aliasedWide maps the JSON text of the wide documents that share containers (built in Go, not
// reproducible by decoding their text) to their index in gen.WideDocs().
var aliasedWide = func() map[string]int {
	m := map[string]int{}
	ws := gen.WideDocs()
	for i := len(ws) - 4; i < len(ws); i++ {
		m[gen.JSON(ws[i])] = i
	}
	return m
}()

func caseOf(id, path string, docText string, mode int, cfg string) map[string]interface{} {
	cs := map[string]interface{}{"path": path, "doc": docText, "mode": modeName[mode], "config": cfg}
	if i, ok := aliasedWide[docText]; ok {
		cs["wide_doc"] = i // a document with shared containers: rebuilt from the generator on replay
	}
	return cs
}

// docOfCase rebuilds the document of a replay case.
func docOfCase(cs map[string]interface{}) interface{} {
	docText, _ := cs["doc"].(string)
	mode := modeFloat
	if cs["mode"] == modeName[modeNumber] {
		mode = modeNumber
	}
	if w, ok := cs["wide_doc"]; ok {
		var i int
		fmt.Sscan(fmt.Sprint(w), &i)
		if ws := gen.WideDocs(); i >= 0 && i < len(ws) {
			if mode == modeNumber {
				return gen.ToNumber(ws[i])
			}
			return ws[i]
		}
	}
	return decodeDoc(docText, mode)
}

// caseOfP also embeds the AST so that a replay does not have to search for it.
func caseOfP(id string, p *gen.Path, path string, docText string, mode int, cfg string) map[string]interface{} {
	cs := caseOf(id, path, docText, mode, cfg)
	b, _ := json.Marshal(p)
	cs["ast"] = json.RawMessage(b)
	return cs
}

// astOf recovers the AST embedded in a replay case.
func astOf(cs map[string]interface{}) *gen.Path {
	raw, ok := cs["ast"]
	if !ok {
		return nil
	}
	b, err := json.Marshal(raw)
	if err != nil {
		return nil
	}
	var p gen.Path
	if json.Unmarshal(b, &p) != nil {
		return nil
	}
	return &p
}

func (j *productJob) RunUnit(i int, c *run.Ctx) {
	u := j.units[i]
	paths := u.Paths()
	// the model state is advanced along the steps all paths of the unit share
	fullPrefix := append(append([]gen.Step{}, u.L.Fixed...), u.Prefix...)
	// parse every path of the unit once
	cases := make([]*pathCase, 0, len(paths))
	for _, p := range paths {
		r := gen.Render(p, nil)
		pr := impl.Parse(r.Text, &j.env.Cfg)
		if pr.F == nil || pr.ErrType != "" || pr.Panic != "" {
			if j.parseFailIsViolation {
				c.Violate(run.Violation{
					Sig:    "parse-rejected:" + gen.Shape(p),
					Detail: fmt.Sprintf("supported path %q was not accepted by Parse: err=%s %s panic=%s", r.Text, pr.ErrType, pr.ErrMsg, pr.Panic),
					Size:   len(r.Text),
					Case:   caseOf(j.id, r.Text, "null", 0, "funcs"),
				})
			}
			c.Add("paths_rejected", 1)
			continue
		}
		pc := &pathCase{p: p, r: r, f: pr.F}
		if j.needAcc {
			pa := impl.Parse(r.Text, &j.env.CfgAcc)
			if pa.F == nil {
				c.Violate(run.Violation{
					Sig:    "parse-rejected-accessor:" + gen.Shape(p),
					Detail: fmt.Sprintf("path %q parses without accessor mode but not with it: err=%s %s panic=%s", r.Text, pa.ErrType, pa.ErrMsg, pa.Panic),
					Size:   len(r.Text),
					Case:   caseOf(j.id, r.Text, "null", 0, "funcs"),
				})
				continue
			}
			pc.fAcc = pa.F
		}
		cases = append(cases, pc)
		c.Add("paths", 1)
	}
	modes := j.ds.modes
	if u.L.Modes != nil {
		modes = u.L.Modes
	}
	docIdx := j.ds.indices(u.L)
	for _, m := range modes {
		for _, di := range docIdx {
			c.Tick()
			doc := j.ds.docs[m][di]
			var st *spec.Stepper
			var pre spec.State
			preUnspec := false
			if j.needModel {
				st = spec.NewStepper(doc, j.env.Model)
				pre = spec.Start(doc)
				for k := range fullPrefix {
					var us bool
					pre, us = st.Step(pre, &fullPrefix[k])
					preUnspec = preUnspec || us
					c.Transitions++
				}
				c.States++
			}
			for _, pc := range cases {
				var out spec.Outcome
				if j.needModel {
					j.env.ResetLogs()
					if len(pc.p.Steps) > len(fullPrefix) {
						s2, us := st.Step(pre, &pc.p.Steps[len(pc.p.Steps)-1])
						out = st.Finish(s2, pc.p)
						out.Unspec = out.Unspec || us || preUnspec
						c.Transitions++
					} else {
						out = st.Finish(pre, pc.p)
						out.Unspec = out.Unspec || preUnspec
						c.Transitions += int64(len(pc.p.Funcs))
					}
					c.States++
				}
				j.env.ResetImpl()
				var res impl.CallResult
				if !j.skipPlain {
					res = impl.Call(pc.f, doc)
				}
				c.Evals++
				c.Traces++
				j.oracle(j, c, pc, di, m, &out, res)
				if j.ds.restore(m, di) {
					c.Add("source_mutation_seen", 1)
					// the model state refers to the old instance: rebuild it
					doc = j.ds.docs[m][di]
					if j.needModel {
						st = spec.NewStepper(doc, j.env.Model)
						pre = spec.Start(doc)
						for k := range fullPrefix {
							pre, _ = st.Step(pre, &fullPrefix[k])
						}
					}
				}
			}
		}
	}
}

// freshEval re-evaluates a case from scratch: new Parse, fresh copy of the document.
func (j *productJob) freshEval(text string, m, di int) (impl.CallResult, interface{}) {
	doc := gen.Clone(j.ds.pristine[m][di])
	j.env.ResetImpl()
	pr := impl.Parse(text, &j.env.Cfg)
	if pr.F == nil {
		return impl.CallResult{ErrType: "parse:" + pr.ErrType, ErrMsg: pr.ErrMsg, Panic: pr.Panic}, doc
	}
	return impl.Call(pr.F, doc), doc
}

// freshEvalCold is freshEval with the library's pools emptied first (two collections: primary
// and victim cache), i.e. what the first call of a new process sees.
func (j *productJob) freshEvalCold(text string, m, di int) (impl.CallResult, interface{}) {
	runtime.GC()
	runtime.GC()
	return j.freshEval(text, m, di)
}

// replayProduct re-executes one (path, doc, mode) case with the given oracle.
func replayProduct(cs map[string]interface{}, judge func(p string, ast *gen.Path, doc interface{}, env *impl.Env) (bool, string)) (bool, string) {
	path, _ := cs["path"].(string)
	doc := docOfCase(cs)
	env := impl.NewEnv()
	return judge(path, astOf(cs), doc, env)
}

func stdLadders(tier string) []gen.Ladder {
	atoms := gen.Ladder{Alpha: gen.AtomFilters(true), Depth: 1, Fixed: []gen.Step{gen.Name("c")}}
	if tier == "thorough" {
		atoms.Funcs, atoms.FuncDepth = [][]string{{"g"}}, 1
		return []gen.Ladder{
			// short paths on the larger documents, both decodings
			{Alpha: gen.SigmaFull(), Depth: 2, Funcs: gen.FuncSuffixes(), FuncDepth: 2},
			// deeper paths on the documents of <=4 nodes
			{Alpha: gen.SigmaFull(), Depth: 3, MinPrefix: 2, Modes: []int{modeFloat}, SmallDocs: true},
			{Alpha: gen.SigmaMid(), Depth: 4, MinPrefix: 3, Modes: []int{modeFloat}, SmallDocs: true},
			{Alpha: gen.SigmaSmall(), Depth: 5, MinPrefix: 4, Modes: []int{modeFloat}, SmallDocs: true},
			atoms,
		}
	}
	return []gen.Ladder{
		{Alpha: gen.SigmaFull(), Depth: 2, Funcs: gen.FuncSuffixes(), FuncDepth: 2},
		{Alpha: gen.SigmaMid(), Depth: 4, MinPrefix: 2, Modes: []int{modeFloat}, CoreDocs: true},
		// long paths over the small alphabet (every check keeps these in the quick tier)
		{Alpha: gen.SigmaSmall(), Depth: 5, MinPrefix: 4, Modes: []int{modeFloat}, CoreDocs: true},
		// every filter atom (and pairwise combinations) applied to the member documents
		atoms,
	}
}

// shallowQuick drops, in the quick tier, the trie nodes that stand for 4-step paths (kept by
// C01 and C03, which share the enumeration; the thorough tier always has them).
func shallowQuick(tier string, us []gen.Unit) []gen.Unit {
	if tier == "thorough" {
		return us
	}
	out := us[:0:0]
	for _, u := range us {
		if len(u.L.Fixed) == 0 && len(u.Prefix) >= 3 && len(u.L.Alpha) > 8 {
			continue
		}
		out = append(out, u)
	}
	return out
}

func unitsOf(ls []gen.Ladder) []gen.Unit {
	var us []gen.Unit
	for i := range ls {
		us = append(us, ls[i].Units()...)
	}
	return us
}

func stdDocSpec(tier string) gen.DocSpec {
	if tier == "thorough" {
		return gen.DocSpec{MaxNodes: 5, Keys: gen.KAB, Scalars: gen.S5, MaxArr: 3}
	}
	return gen.DocSpec{MaxNodes: 4, Keys: gen.KAB, Scalars: gen.S5, MaxArr: 3}
}

func jsonRaw(p *gen.Path) json.RawMessage {
	b, _ := json.Marshal(p)
	return json.RawMessage(b)
}

// maskOf reads a result back as a bitmask of positions of members (in order); ok=false if it
// is not a sub-sequence.
func maskOf(values, members []interface{}) (mask uint, ok bool) {
	pos := 0
	for _, v := range values {
		found := false
		for pos < len(members) {
			if sameJSON(members[pos], v) {
				mask |= 1 << uint(pos)
				pos++
				found = true
				break
			}
			pos++
		}
		if !found {
			return 0, false
		}
	}
	return mask, true
}

func isContainer(v interface{}) bool {
	switch v.(type) {
	case map[string]interface{}, []interface{}:
		return true
	}
	return false
}
