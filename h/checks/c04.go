package checks

import (
	"fmt"
	"runtime"

	"verif/h/gen"
	"verif/h/impl"
	"verif/h/run"
)

// C04: retrieval never modifies the source document (success or failure, plain or accessor
// mode without Set). Invariant on every execution: deep snapshot before = after.

type c04Job struct {
	// big[di]: a 5-node document of the thorough tier, or a wide / big document; the depth-3
	// expressions (units from firstTriple on) are evaluated on all the other documents only
	big         []bool
	firstTriple int
	nAtoms      int
	tier        string
	queries     []*gen.Query
	ladder      []gen.Unit
	ds          *docSet
	env         *impl.Env
	nq          int // number of query units
}

const c04Chunk = 2

func newC04(tier string) run.Job {
	j := &c04Job{env: impl.NewEnv()}
	j.queries = append(j.queries, gen.Atoms()...)
	j.nAtoms = len(j.queries)
	j.tier = tier
	for _, cb := range gen.Pairs(gen.ReducedAtoms()) {
		j.queries = append(j.queries, cb.Q)
	}
	j.firstTriple = len(j.queries) / c04Chunk
	tiny := gen.TinyAtoms()
	if tier != "thorough" {
		tiny = tiny[:5]
	}
	for _, cb := range gen.Triples(tiny) {
		j.queries = append(j.queries, cb.Q)
	}
	// user functions inside logical operands: the functions observe the caller's document while
	// the retrieval is still running (see Observe below)
	a, b := gen.P('@', gen.Name("a")), gen.P('@', gen.Name("b"))
	fatoms := []*gen.Query{
		gen.Cmp("==", gen.OpP(gen.P('@', gen.Name("a")).F("f")), gen.LitNum(2)),
		gen.Cmp("==", gen.OpP(gen.P('@', gen.Wild()).F("cnt")), gen.LitNum(1)),
		gen.Exists(gen.P('@', gen.Name("b")).F("id")),
	}
	for _, fq := range fatoms {
		j.queries = append(j.queries, fq)
		for _, x := range []*gen.Query{gen.Exists(a), gen.NotExists(b), gen.Cmp("==", gen.OpP(a), gen.LitNum(1)), gen.Cmp("!=", gen.OpP(b), gen.OpP(gen.P('$', gen.Name("b"))))} {
			j.queries = append(j.queries, gen.Or(x, fq), gen.Or(fq, x), gen.And(x, fq), gen.And(fq, x))
		}
	}
	j.nq = (len(j.queries) + c04Chunk - 1) / c04Chunk
	// both decodings: a json.Number may be rewritten in place as well
	modes := []int{modeFloat, modeNumber}
	spec4 := stdDocSpec(tier)
	if tier != "thorough" {
		spec4.Scalars = gen.S3
	}
	j.ds = &docSet{modes: modes}
	nd := len(gen.Docs(spec4))
	for i, d := range append(append(gen.Docs(spec4), gen.WideDocs()...), gen.BigDocs()...) {
		j.big = append(j.big, (i < nd && gen.Nodes(d) >= 5) || i >= nd) // the depth-3 expressions skip the 5-node, wide and big documents
		j.ds.text = append(j.ds.text, gen.JSON(d))
		for _, m := range modes {
			cp := gen.Clone(d)
			if m == modeNumber {
				cp = gen.ToNumber(d)
			}
			j.ds.docs[m] = append(j.ds.docs[m], cp)
			j.ds.pristine[m] = append(j.ds.pristine[m], gen.Clone(cp))
		}
	}
	// containers of 2..3 members that all hit / partly hit / miss the operand paths (the node
	// bound above is too small for "every member has a")
	for _, seq := range [][]int{{3, 3}, {3, 4}, {3, 7}, {7, 7}, {3, 2}, {2, 2}, {3, 3, 3}, {3, 7, 4}, {7, 3, 2}, {6, 6}, {3, 0}, {9, 11}} {
		for _, object := range []bool{false, true} {
			doc, _ := c09Doc(seq, object, c09Root{})
			for _, root := range []interface{}{doc, doc["c"]} {
				j.ds.text = append(j.ds.text, gen.JSON(root))
				for _, m := range modes {
					cp := gen.Clone(root)
					if m == modeNumber {
						cp = gen.ToNumber(root)
					}
					j.ds.docs[m] = append(j.ds.docs[m], cp)
					j.ds.pristine[m] = append(j.ds.pristine[m], gen.Clone(cp))
				}
			}
		}
	}
	for _, d := range gen.MemberDocs() {
		j.ds.text = append(j.ds.text, gen.JSON(d))
		for _, m := range modes {
			cp := gen.Clone(d)
			if m == modeNumber {
				cp = gen.ToNumber(d)
			}
			j.ds.docs[m] = append(j.ds.docs[m], cp)
			j.ds.pristine[m] = append(j.ds.pristine[m], gen.Clone(cp))
		}
	}
	// the working copies get spare capacity in every array (a write beyond the length of a caller's
	// array is a write to caller data as well)
	j.ds.spare = true
	for _, m := range modes {
		for i := range j.ds.docs[m] {
			j.ds.docs[m][i] = withSpare(j.ds.docs[m][i])
		}
	}
	// plus the ordinary ladders (any step kind may write)
	j.ladder = unitsOf([]gen.Ladder{{Alpha: gen.SigmaFull(), Depth: 2, Funcs: gen.FuncSuffixes(), FuncDepth: 1}})
	return j
}

func (j *c04Job) NumUnits() int { return j.nq + len(j.ladder) }
func (j *c04Job) Describe(i int) map[string]interface{} {
	return map[string]interface{}{"unit": i, "sig": fmt.Sprintf("c04unit:%d", i)}
}

func c04Paths(q *gen.Query) []*gen.Path {
	a := gen.Name("a")
	f := gen.Filter(q)
	return []*gen.Path{
		gen.P('$', f), gen.P('$', a, f), gen.P('$', gen.Wild(), f), gen.P('$', gen.Rec(f)),
		gen.P('$', f, a), gen.P('$', f, gen.Filter(gen.Exists(gen.P('@', a)))), gen.P('$', gen.Union(gen.Idx(0)), f), gen.P('$', gen.Name("c"), f),
	}
}

func (j *c04Job) RunUnit(i int, c *run.Ctx) {
	var paths []*gen.Path
	if i < j.nq {
		lo, hi := i*c04Chunk, (i+1)*c04Chunk
		if hi > len(j.queries) {
			hi = len(j.queries)
		}
		for qi, q := range j.queries[lo:hi] {
			ps := c04Paths(q)
			if lo+qi >= j.nAtoms {
				// composite expressions: five of the eight positions
				ps = []*gen.Path{ps[0], ps[1], ps[3], ps[4], ps[7]}
			}
			paths = append(paths, ps...)
		}
	} else {
		paths = j.ladder[i-j.nq].Paths()
	}
	for _, p := range paths {
		text := gen.Render(p, nil).Text
		pr := impl.Parse(text, &j.env.Cfg)
		pa := impl.Parse(text, &j.env.CfgAcc)
		if pr.F == nil || pa.F == nil {
			c.Add("paths_rejected", 1)
			continue
		}
		for _, m := range j.ds.modes {
			// empty sync.Pool (two collections: primary and victim cache), so that the first calls of
			// this path run with freshly allocated, zero-capacity pooled buffers as in a new process
			runtime.GC()
			runtime.GC()
			for di := 0; di < j.ds.n(); di++ {
				if i > j.firstTriple && i < j.nq && di < len(j.big) && j.big[di] {
					continue
				}
				c.Tick()
				for k, f := range []impl.Func{pr.F, pa.F} {
					doc := j.ds.docs[m][di]
					during := ""
					j.env.Observe = func() {
						if during == "" && !sameJSON(doc, j.ds.pristine[m][di]) {
							during = showVal(doc)
						}
					}
					res := impl.Call(f, doc)
					j.env.Observe = nil
					c.Evals++
					if during != "" {
						cs := caseOfP("C04", p, text, j.ds.text[di], m, map[int]string{0: "plain", 1: "accessor"}[k])
						cs["during"] = true
						c.Violate(run.Violation{
							Sig:    "source-modified-during-call:" + gen.Shape(p),
							Detail: fmt.Sprintf("%s on %s (%s): a user function called by the retrieval saw the caller's document as %s", text, j.ds.text[di], modeName[m], during),
							Size:   len(text)*100 + len(j.ds.text[di]),
							Case:   cs,
						})
					}
					c.Outcome(res.Key())
					if res.ErrType == "" {
						c.Nontrivial++
					}
					// a write may also land in the document used by the PREVIOUS call (a buffer that
					// aliases caller memory and is recycled): check that one too
					if di > 0 && j.ds.restore(m, di-1) {
						c.Violate(run.Violation{
							Sig:    "earlier-source-modified:" + gen.Shape(p),
							Detail: fmt.Sprintf("%s: after evaluating %s and then %s, the FIRST document is no longer what it was", text, j.ds.text[di-1], j.ds.text[di]),
							Size:   len(text)*100 + len(j.ds.text[di]) + len(j.ds.text[di-1]),
							Case:   map[string]interface{}{"path": text, "doc": j.ds.text[di-1], "doc2": j.ds.text[di], "mode": modeName[m], "config": map[int]string{0: "plain", 1: "accessor"}[k], "two_calls": true},
						})
					}
					if !j.ds.restore(m, di) {
						continue
					}
					// confirm on a fresh document with a fresh parse
					cfg := &j.env.Cfg
					cfgName := "plain"
					if k == 1 {
						cfg, cfgName = &j.env.CfgAcc, "accessor"
					}
					fdoc := withSpare(gen.Clone(j.ds.pristine[m][di]))
					fp := impl.Parse(text, cfg)
					impl.Call(fp.F, fdoc)
					if sameJSON(fdoc, j.ds.pristine[m][di]) && !spareDirty(fdoc) {
						c.Add("history_dependence_seen", 1)
						continue
					}
					cs := caseOfP("C04", p, text, j.ds.text[di], m, cfgName)
					if spareDirty(fdoc) {
						cs["spare"] = true
					}
					c.Violate(run.Violation{
						Sig:    "source-modified:" + gen.Shape(p),
						Detail: fmt.Sprintf("%s (%s mode) on %s (%s): the caller's document is %s after the call%s", text, cfgName, j.ds.text[di], modeName[m], showVal(fdoc), map[bool]string{true: " and values were written beyond the length of one of its arrays (into the spare capacity)", false: ""}[spareDirty(fdoc)]),
						Size:   len(text)*100 + len(j.ds.text[di]),
						Case:   cs,
					})
				}
				if di%7 == 0 && m == modeFloat {
					c.Sample(map[string]interface{}{"path": text, "doc": j.ds.text[di], "unchanged_after_plain_and_accessor_call": true})
				}
			}
		}
	}
}

func init() {
	run.Register(&run.Check{
		ID:    "C04",
		Level: "exploration",
		Rule:  "every (path, document, mode in {plain, accessor without Set}) is one execution; the document is compared structurally with an untouched copy after every call, success or failure; non-trivial = the call succeeds",
		Assumptions: []string{
			"before each path sync.Pool is emptied (two garbage collections), so pooled buffers start small as in a fresh process",
			"every array of the working documents has spare capacity (cap = 2*len+2) whose slots must still be nil after the call",
			"deep structural comparison with a pristine copy built before the call; a difference is confirmed on a fresh document with a fresh Parse before it is reported",
			"every user function the retrieval calls compares the caller's document with the pristine copy at that moment (a write that is undone before the call returns is still a write to caller data)",
			"the clause about sharing one document between goroutines is explored by C06",
		},
		Bounds: map[string]string{
			"quick":    "every atom (219), every A&&B / A||B over 24 atoms (1152) and 5 depth-3 shapes over 5 atoms (625) as a filter in 8 positions for the atoms and 5 for the composites ($[?], $.a[?], $..[?], $[?].a, $.c[?]; also $.*[?], $[?][?(@.a)], $[0][?] for the atoms); plus all paths of <=2 steps over the 50-step alphabet (functions after <=1 step); every document of <=4 nodes (scalars {1,\"a\",null}), the wide and member documents, plus 48 containers of 2..3 members that all / partly / never have the operand members; both decodings; plain and accessor mode; after every call the document of the previous call is checked too",
			"thorough": "depth-3 shapes over 8 atoms (2560) on the quick documents; atoms, pairs and ladder paths on every document of <=5 nodes in both decodings",
		},
		New: newC04,
		Replay: func(cs map[string]interface{}) (bool, string) {
			return replayProduct(cs, func(path string, p *gen.Path, doc interface{}, env *impl.Env) (bool, string) {
				cfg := &env.Cfg
				if cs["config"] == "accessor" {
					cfg = &env.CfgAcc
				}
				if cs["two_calls"] == true {
					pr := impl.Parse(path, cfg)
					if pr.F == nil {
						return false, "does not parse"
					}
					mode := modeFloat
					if cs["mode"] == modeName[modeNumber] {
						mode = modeNumber
					}
					d2text, _ := cs["doc2"].(string)
					before := gen.Clone(doc)
					runtime.GC() // as in the check: start from emptied pools
					runtime.GC()
					impl.Call(pr.F, doc)
					impl.Call(pr.F, decodeDoc(d2text, mode))
					return !sameJSON(doc, before), "first document after both calls: " + showVal(doc)
				}
				pr := impl.Parse(path, cfg)
				if pr.F == nil {
					return false, "does not parse"
				}
				before := gen.Clone(doc)
				if cs["during"] == true {
					during := ""
					env.Observe = func() {
						if during == "" && !sameJSON(doc, before) {
							during = showVal(doc)
						}
					}
					impl.Call(pr.F, doc)
					env.Observe = nil
					return during != "", "document as seen by a user function during the call: " + during
				}
				doc = withSpare(doc)
				impl.Call(pr.F, doc)
				if spareDirty(doc) {
					return true, "the call wrote beyond the length of one of the caller's arrays (into its spare capacity)"
				}
				return !sameJSON(doc, before), "document after the call: " + showVal(doc)
			})
		},
	})
}
