package checks

import (
	"fmt"
	"math/bits"

	"verif/h/gen"
	"verif/h/impl"
	"verif/h/run"
)

// C09: Boolean algebra of filters and comparison dualities, as relations between runs of the
// implementation (no reference model).

// memberKinds: members hit / miss / mistype the operand paths @.a, @.b, @.*, @[0]. The i-th
// member of a container is instantiated with variant i so that all members of one container
// are pairwise distinct and a selection can be read back as a set of positions.
const c09NumKinds = 13

func c09Member(kind, i int) interface{} {
	z := float64(100 + i)
	switch kind {
	case 0:
		return float64(7 + i)
	case 1:
		return fmt.Sprintf("s%d", i)
	case 2:
		return map[string]interface{}{"z": z}
	case 3:
		return map[string]interface{}{"a": 1.0, "z": z}
	case 4:
		return map[string]interface{}{"a": 2.0, "z": z}
	case 5:
		return map[string]interface{}{"a": "a", "z": z}
	case 6:
		return map[string]interface{}{"b": 1.0, "z": z}
	case 7:
		return map[string]interface{}{"a": 1.0, "b": 1.0, "z": z}
	case 8:
		return map[string]interface{}{"a": 2.0, "b": 1.0, "z": z}
	case 9:
		return map[string]interface{}{"a": nil, "b": true, "z": z}
	case 10:
		return []interface{}{1.0, z}
	case 11:
		return map[string]interface{}{"a": true, "b": "a", "z": z}
	case 12:
		// the float adjacent to the literal 1 used by the comparison atoms
		return map[string]interface{}{"a": 1.0000000000000002, "b": 0.9999999999999999, "z": z}
	}
	panic("bad kind")
}

// c09Roots: values of $.a / $.b (absent encoded by omission).
type c09Root struct {
	hasA, hasB bool
	a, b       interface{}
}

func c09Roots() []c09Root {
	var out []c09Root
	as := []struct {
		has bool
		v   interface{}
	}{{false, nil}, {true, 1.0}, {true, 2.0}, {true, "a"}, {true, nil}}
	bs := []struct {
		has bool
		v   interface{}
	}{{false, nil}, {true, 1.0}, {true, true}}
	for _, a := range as {
		for _, b := range bs {
			out = append(out, c09Root{a.has, b.has, a.v, b.v})
		}
	}
	return out
}

// container sequences: all sequences of 0..maxLen kinds (small), plus longer ones over 3 kinds
func c09Sequences(tier string) [][]int {
	var out [][]int
	maxLen := 3
	var rec func(cur []int, alpha []int, max int)
	rec = func(cur []int, alpha []int, max int) {
		out = append(out, append([]int{}, cur...))
		if len(cur) == max {
			return
		}
		for _, k := range alpha {
			rec(append(cur, k), alpha, max)
		}
	}
	all := make([]int, c09NumKinds)
	for i := range all {
		all[i] = i
	}
	if tier != "thorough" {
		// quick: lengths 0..2 over all kinds, length 3 over 6 kinds
		rec(nil, all, 2)
		pre := len(out)
		rec(nil, []int{0, 2, 3, 4, 6, 7}, 3)
		// drop duplicates of length <= 2 produced by the second call
		kept := out[:pre]
		for _, s := range out[pre:] {
			if len(s) == 3 {
				kept = append(kept, s)
			}
		}
		out = kept
	} else {
		rec(nil, all, maxLen)
	}
	// 4..6 members over 3 kinds (miss, hit, other hit)
	pre := len(out)
	rec(nil, []int{2, 3, 7}, 6)
	kept := out[:pre]
	for _, s := range out[pre:] {
		if len(s) >= 4 {
			kept = append(kept, s)
		}
	}
	return kept
}

type c09Expr struct {
	q    *gen.Query
	text string
	f    impl.Func
	root bool // uses a $ operand
}

type c09Job struct {
	tier   string
	seqs   [][]int
	roots  []c09Root
	atoms  []*gen.Query
	combos []gen.Combo
	env    *impl.Env
	// parsed lazily per worker
	exprs  map[string]*c09Expr
	chunks int
}

const c09Chunk = 8 // container sequences per unit

func newC09(tier string) run.Job {
	j := &c09Job{tier: tier, seqs: c09Sequences(tier), roots: c09Roots(), atoms: gen.Atoms(), env: impl.NewEnv(), exprs: map[string]*c09Expr{}}
	j.combos = gen.Pairs(gen.ReducedAtoms())
	if tier == "thorough" {
		j.combos = append(j.combos, gen.Triples(gen.TinyAtoms())...)
	} else {
		j.combos = append(j.combos, gen.Triples(gen.TinyAtoms()[:5])...)
	}
	j.chunks = (len(j.seqs) + c09Chunk - 1) / c09Chunk
	return j
}

// units: (chunk of container sequences) x (array|object)
func (j *c09Job) NumUnits() int { return j.chunks * 2 }

func (j *c09Job) Describe(i int) map[string]interface{} {
	return map[string]interface{}{"unit": i, "sig": fmt.Sprintf("c09unit:%d", i)}
}

func (j *c09Job) expr(q *gen.Query, c *run.Ctx) *c09Expr {
	text := "$.c[?(" + gen.RenderQuery(q, nil) + ")]"
	if e, ok := j.exprs[text]; ok {
		return e
	}
	e := &c09Expr{q: q, text: text, root: queryUsesRoot(q)}
	pr := impl.Parse(text, &j.env.Cfg)
	if pr.F == nil {
		c.Violate(run.Violation{
			Sig:    "parse-rejected:" + gen.QueryShape(q),
			Detail: fmt.Sprintf("filter %q was not accepted by Parse: %s %s %s", text, pr.ErrType, pr.ErrMsg, pr.Panic),
			Size:   len(text),
			Case:   map[string]interface{}{"path": text, "kind": "parse"},
		})
	}
	e.f = pr.F
	j.exprs[text] = e
	return e
}

func queryUsesRoot(q *gen.Query) bool {
	p := gen.P('$', gen.Filter(q))
	return p.HasRootOperand()
}

func c09Doc(seq []int, object bool, r c09Root) (doc map[string]interface{}, members []interface{}) {
	doc = map[string]interface{}{}
	if r.hasA {
		doc["a"] = r.a
	}
	if r.hasB {
		doc["b"] = r.b
	}
	for i, k := range seq {
		members = append(members, c09Member(k, i))
	}
	if object {
		m := map[string]interface{}{}
		for i, v := range members {
			m[fmt.Sprintf("k%d", i)] = v // k0 < k1 < ... : sorted key order = position order
		}
		doc["c"] = m
	} else {
		doc["c"] = append([]interface{}{}, members...)
	}
	return
}

// selection evaluates an expression and reads the result back as a position bitmask.
// ok=false: the result is not a subsequence of the members in container order (or panic, or
// undocumented error).
func c09Select(e *c09Expr, doc interface{}, members []interface{}) (mask uint, ok bool, why string) {
	res := impl.Call(e.f, doc)
	if res.Panic != "" {
		return 0, false, "panic: " + res.Panic
	}
	if res.ErrType != "" {
		if res.ErrType != "ErrorMemberNotExist" {
			return 0, false, "unexpected error " + res.ErrType + ": " + res.ErrMsg
		}
		return 0, true, ""
	}
	pos := 0
	for _, v := range res.Values {
		found := false
		for pos < len(members) {
			if sameJSON(members[pos], v) {
				mask |= 1 << uint(pos)
				pos++
				found = true
				break
			}
			pos++
		}
		if !found {
			return 0, false, fmt.Sprintf("result %s is not a sub-sequence of the members in container order", show(res.Values))
		}
	}
	return mask, true, ""
}

var mirrorOp = map[string]string{"==": "==", "!=": "!=", "<": ">", "<=": ">=", ">": "<", ">=": "<="}

func (j *c09Job) RunUnit(i int, c *run.Ctx) {
	object := i%2 == 1
	chunk := i / 2
	lo, hi := chunk*c09Chunk, (chunk+1)*c09Chunk
	if hi > len(j.seqs) {
		hi = len(j.seqs)
	}
	// prepare expressions
	type rel struct {
		kind string // and, or, not, ne, mirror, le, paren
		x    *c09Expr
		a, b *c09Expr
	}
	var rels []rel
	for _, cb := range j.combos {
		x := j.expr(cb.Q, c)
		a := j.expr(cb.A, c)
		b := j.expr(cb.B, c)
		if x.f == nil || a.f == nil || b.f == nil {
			continue
		}
		k := "and"
		if cb.Kind == gen.QOr {
			k = "or"
		}
		rels = append(rels, rel{k, x, a, b})
		// parentheses around a whole sub-expression are transparent
		px := j.expr(gen.Paren(cb.Q), c)
		if px.f != nil && len(rels)%7 == 0 {
			rels = append(rels, rel{"paren", px, x, nil})
		}
	}
	for _, q := range j.atoms {
		x := j.expr(q, c)
		if x.f == nil {
			continue
		}
		switch q.Kind {
		case gen.QExists:
			if q.Not {
				rels = append(rels, rel{"not", x, j.expr(gen.Exists(q.P), c), nil})
			}
		case gen.QCmp:
			if q.Op == "!=" {
				rels = append(rels, rel{"not", x, j.expr(gen.Cmp("==", q.L, q.R), c), nil})
			}
			m := j.expr(gen.Cmp(mirrorOp[q.Op], q.R, q.L), c)
			if m.f != nil {
				rels = append(rels, rel{"mirror", x, m, nil})
			}
			if (q.Op == "<=" || q.Op == ">=") && (q.L.Lit != nil || q.R.Lit != nil) {
				strict := j.expr(gen.Cmp(q.Op[:1], q.L, q.R), c)
				eq := j.expr(gen.Cmp("==", q.L, q.R), c)
				if strict.f != nil && eq.f != nil {
					rels = append(rels, rel{"le", x, strict, eq})
				}
			}
		}
	}
	sels := map[*c09Expr]uint{}
	for si := lo; si < hi; si++ {
		seq := j.seqs[si]
		full := uint(1)<<uint(len(seq)) - 1
		for ri, r := range j.roots {
			c.Tick()
			doc, members := c09Doc(seq, object, r)
			pristine := gen.Clone(doc)
			for k := range sels {
				delete(sels, k)
			}
			bad := map[*c09Expr]string{}
			get := func(e *c09Expr) (uint, bool) {
				if !e.root && ri > 0 {
					// expression does not depend on the root values: evaluated for root 0 only
					return 0, false
				}
				if m, ok := sels[e]; ok {
					return m, true
				}
				if _, isBad := bad[e]; isBad {
					return 0, false
				}
				m, ok, why := c09Select(e, doc, members)
				c.Evals++
				if !sameJSON(doc, pristine) {
					c.Add("source_mutation_seen", 1)
					doc, members = c09Doc(seq, object, r)
				}
				if !ok {
					bad[e] = why
					c.Violate(run.Violation{
						Sig:    "not-a-selection:" + gen.QueryShape(e.q),
						Detail: fmt.Sprintf("%s on %s: %s", e.text, showVal(pristine), why),
						Size:   len(e.text)*100 + len(seq),
						Case:   map[string]interface{}{"kind": "selection", "path": e.text, "doc": showVal(pristine), "members": len(seq)},
					})
					return 0, false
				}
				sels[e] = m
				c.Outcome(fmt.Sprintf("selected=%d/%d", bits.OnesCount(m), len(seq)))
				return m, true
			}
			for _, rl := range rels {
				if !rl.x.root && !rl.a.root && (rl.b == nil || !rl.b.root) && ri > 0 {
					continue
				}
				// for relations that mix root-dependent and independent parts, evaluate all parts
				getAny := func(e *c09Expr) (uint, bool) {
					if !e.root && ri > 0 {
						m, ok, _ := c09Select(e, doc, members)
						c.Evals++
						return m, ok
					}
					return get(e)
				}
				mx, ok1 := getAny(rl.x)
				ma, ok2 := getAny(rl.a)
				var mb uint
				ok3 := true
				if rl.b != nil {
					mb, ok3 = getAny(rl.b)
				}
				if !ok1 || !ok2 || !ok3 {
					continue
				}
				var want uint
				var law string
				switch rl.kind {
				case "and":
					want, law = ma&mb, "sel(A&&B) = sel(A) ∩ sel(B)"
				case "or":
					want, law = ma|mb, "sel(A||B) = sel(A) ∪ sel(B)"
				case "not":
					want, law = full&^ma, "complement"
				case "mirror":
					want, law = ma, "mirrored operands/operator select the same members"
				case "le":
					want, law = ma|mb, "<=/>= = strict ∪ =="
				case "paren":
					want, law = ma, "parentheses are transparent"
				}
				c.Add("relations_checked", 1)
				if want != 0 || mx != 0 {
					c.Nontrivial++
				}
				if mx != want {
					btext := ""
					if rl.b != nil {
						btext = fmt.Sprintf(", %s selects %0*b", rl.b.text, len(seq), mb)
					}
					c.Violate(run.Violation{
						Sig:    rl.kind + ":" + gen.QueryShape(rl.x.q),
						Detail: fmt.Sprintf("%s: on %s, %s selects positions %0*b but %s selects %0*b%s (bit i = member i, least significant first)", law, showVal(pristine), rl.x.text, len(seq), mx, rl.a.text, len(seq), ma, btext),
						Size:   len(rl.x.text)*100 + len(seq)*10 + ri,
						Case: map[string]interface{}{"kind": rl.kind, "path": rl.x.text, "a": rl.a.text, "b": func() string {
							if rl.b != nil {
								return rl.b.text
							}
							return ""
						}(), "doc": showVal(pristine), "members": len(seq)},
					})
				} else if rl.kind == "or" && bits.OnesCount(mx) >= 2 && ma != mx && mb != mx {
					c.Sample(map[string]interface{}{"law": law, "expr": rl.x.text, "doc": showVal(pristine), "selected_positions": fmt.Sprintf("%0*b", len(seq), mx)})
				}
			}
		}
	}
}

// c09Replay re-evaluates a recorded relation.
func c09Replay(cs map[string]interface{}) (bool, string) {
	kind, _ := cs["kind"].(string)
	docText, _ := cs["doc"].(string)
	doc := decodeDoc(docText, modeFloat).(map[string]interface{})
	var members []interface{}
	switch t := doc["c"].(type) {
	case []interface{}:
		members = append(members, t...)
	case map[string]interface{}:
		for _, k := range gen.SortedKeys(t) {
			members = append(members, t[k])
		}
	}
	env := impl.NewEnv()
	sel := func(text string) (uint, bool, string) {
		pr := impl.Parse(text, &env.Cfg)
		if pr.F == nil {
			return 0, false, "does not parse: " + pr.ErrMsg
		}
		return c09Select(&c09Expr{text: text, f: pr.F}, gen.Clone(doc), membersOf(gen.Clone(doc)))
	}
	_ = members
	path, _ := cs["path"].(string)
	if kind == "parse" {
		pr := impl.Parse(path, &env.Cfg)
		return pr.F == nil, pr.ErrMsg
	}
	mx, ok, why := sel(path)
	if kind == "selection" {
		return !ok, why
	}
	a, _ := cs["a"].(string)
	b, _ := cs["b"].(string)
	ma, ok2, _ := sel(a)
	var mb uint
	if b != "" {
		mb, _, _ = sel(b)
	}
	if !ok || !ok2 {
		return false, "parts not evaluable"
	}
	n := len(members)
	full := uint(1)<<uint(n) - 1
	var want uint
	switch kind {
	case "and":
		want = ma & mb
	case "or", "le":
		want = ma | mb
	case "not":
		want = full &^ ma
	default:
		want = ma
	}
	return mx != want, fmt.Sprintf("%s selects %0*b, relation requires %0*b", path, n, mx, n, want)
}

func membersOf(doc interface{}) []interface{} {
	var members []interface{}
	switch t := doc.(map[string]interface{})["c"].(type) {
	case []interface{}:
		members = append(members, t...)
	case map[string]interface{}:
		for _, k := range gen.SortedKeys(t) {
			members = append(members, t[k])
		}
	}
	return members
}

func init() {
	run.Register(&run.Check{
		ID:    "C09",
		Level: "exploration",
		Rule:  "every (relation instance, container, root values): the composite or dual expression and its parts are evaluated as $.c[?(...)] on the same document and their selections compared as position sets in container order; members of one container are pairwise distinct; non-trivial = at least one side selects a member",
		Assumptions: []string{
			"relations between runs of the implementation only: sel(A&&B)=∩, sel(A||B)=∪, !path and != are complements, mirrored operand/operator pairs agree, <=/>= against a number literal = strict ∪ ==, parentheses transparent; a result that is not a sub-sequence of the members is itself a violation",
		},
		Bounds: map[string]string{
			"quick":    "atoms: 12 existence tests, 204 comparisons (6 operators x {number,string,bool,null literal, @.a, @.b, $.a, $.b} both orders, grammar-legal), 3 regex tests; composites: A&&B and A||B over 24 atoms (1152), 5 depth-3 shapes over 5 atoms (625); containers: arrays and objects of 0..2 members over 13 member kinds, 3 members over 6 kinds, 4..6 members over 3 kinds; 15 combinations of $.a/$.b",
			"thorough": "same atoms; depth-3 shapes over 8 atoms (2560); containers of 0..3 members over all 13 kinds, 4..6 over 3 kinds; 15 root combinations",
		},
		New:    newC09,
		Replay: c09Replay,
	})
}
