package checks

import (
	"bufio"
	"fmt"
	"math"
	"os/exec"
	"runtime"
	"strconv"
	"strings"

	"verif/h/gen"
	"verif/h/impl"
	"verif/h/run"
	"verif/h/spec"
)

// C11: index and slice arithmetic, exhaustively for small bounds plus integer extremes.

const c11MaxLen = 6

func c11Small() []gen.Num {
	out := []gen.Num{gen.Om()}
	for v := int64(-7); v <= 7; v++ {
		out = append(out, gen.N(v))
	}
	return out
}

func c11Boundary(n int) []gen.Num {
	vals := []int64{-2, -1, 0, 1, 2, 1 << 31, -(1 << 31), math.MaxInt64, -math.MaxInt64, math.MinInt64,
		int64(n), -int64(n), int64(n + 1), -int64(n + 1), math.MaxInt64 - 1, math.MinInt64 + 1}
	seen := map[int64]bool{}
	out := []gen.Num{gen.Om()}
	for _, v := range vals {
		if !seen[v] {
			seen[v] = true
			out = append(out, gen.N(v))
		}
	}
	return out
}

// c11Tiny: slices with every bound in {omitted,-2,-1,0,1,2} (216) plus 7 longer-reaching ones, used for nested slices.
func c11Tiny() []gen.Sub {
	vals := []gen.Num{gen.Om(), gen.N(-2), gen.N(-1), gen.N(0), gen.N(1), gen.N(2)}
	var out []gen.Sub
	for _, s := range vals {
		for _, e := range vals {
			for _, t := range vals {
				out = append(out, gen.Slice(s, e, t))
			}
		}
	}
	// a few slices whose index lists are not a prefix 0,1,2,.. and reach further (for the grids)
	out = append(out, gen.Slice2(gen.N(2), gen.N(8)), gen.Slice(gen.Om(), gen.Om(), gen.N(-3)), gen.Slice(gen.N(1), gen.N(7), gen.N(2)),
		gen.Slice2(gen.N(0), gen.N(3)), gen.Slice(gen.N(1), gen.N(4), gen.N(2)), gen.Slice2(gen.N(-3), gen.Om()), gen.Slice2(gen.N(1), gen.N(18)))
	return out
}

// c11Long: bounds and steps for the long-array family (arrays of 9..130 elements: sizes
// around 8, 16, 32 and 64, where growth policies and hand-written fast paths change behaviour)
var c11LongLens = []int{9, 17, 33, 40, 50, 70, 130}

func c11LongBounds() []gen.Num {
	out := []gen.Num{gen.Om()}
	for _, v := range []int64{0, 1, 8, 16, 17, 31, 32, 33, 35, 40, 49, 50, 64, 69, -1, -9, -33, -50, 200, -200} {
		out = append(out, gen.N(v))
	}
	return out
}

func c11LongSteps() []gen.Num {
	return []gen.Num{gen.Om(), gen.N(1), gen.N(2), gen.N(3), gen.N(-1), gen.N(-2), gen.N(17), gen.N(33)}
}

// c11Spelled: integer literals whose spelling is not what strconv.Itoa prints.
func c11Spelled() []gen.Num {
	mk := func(raw string, v int64) gen.Num { return gen.Num{V: v, Raw: raw} }
	return []gen.Num{gen.Om(), mk("-0", 0), mk("-00", 0), mk("+0", 0), mk("00", 0), mk("+1", 1), mk("01", 1), mk("-01", -1), mk("+2", 2), gen.N(1)}
}

// c11Unit: family 0 = small (start,end fixed by the unit; all steps, lengths),
// family 1 = boundary (start fixed by unit, length fixed by unit; all ends, steps),
// family 2 = indices, family 3 = out-of-range integers must be rejected by Parse.
type c11Unit struct {
	family int
	a, b   int
}

type c11Job struct {
	units []c11Unit
	env   *impl.Env
	small []gen.Num
	// freshPools: empty the library's pools before the union forms (long-array family, omitted step)
	freshPools bool
}

func newC11(tier string) run.Job {
	j := &c11Job{env: impl.NewEnv(), small: c11Small()}
	for a := range j.small {
		for b := range j.small {
			j.units = append(j.units, c11Unit{0, a, b})
		}
	}
	for n := 0; n <= c11MaxLen; n++ {
		for a := range c11Boundary(n) {
			j.units = append(j.units, c11Unit{1, a, n})
		}
	}
	j.units = append(j.units, c11Unit{2, 0, 0}, c11Unit{3, 0, 0})
	// family 5: long arrays (start bound fixed by the unit; every end, step; lengths ascending, the
	// parsed function is reused from one length to the next)
	for a := range c11LongBounds() {
		j.units = append(j.units, c11Unit{5, a, 0})
	}
	// family 6: unusual spellings of the bounds (-0, -00, +0, 00, +1, 01, -01): one unit per start spelling
	for a := range c11Spelled() {
		j.units = append(j.units, c11Unit{6, a, 0})
	}
	// family 4: a slice applied to the elements selected by another slice (outer slice fixed by the unit)
	for a := range c11Tiny() {
		j.units = append(j.units, c11Unit{4, a, 0})
	}
	return j
}

func (j *c11Job) NumUnits() int { return len(j.units) }

func (j *c11Job) Describe(i int) map[string]interface{} {
	u := j.units[i]
	return map[string]interface{}{"unit": i, "family": u.family, "a": u.a, "b": u.b, "sig": fmt.Sprintf("c11unit:%d:%d:%d", u.family, u.a, u.b)}
}

func arrayOfLen(n int) []interface{} {
	a := make([]interface{}, n)
	for i := range a {
		a[i] = float64(i)
	}
	return a
}

// forms wraps a subscript into the three positions the property names.
func c11Forms(sub gen.Sub, n int) []struct {
	p   *gen.Path
	doc interface{}
} {
	arr := arrayOfLen(n)
	return []struct {
		p   *gen.Path
		doc interface{}
	}{
		{gen.P('$', gen.Union(sub)), arr},
		{gen.P('$', gen.Union(sub, gen.Idx(0), sub)), arr},
		{gen.P('$', gen.Union(gen.Idx(0), sub)), arr},
		{gen.P('$', gen.Rec(gen.Union(sub))), map[string]interface{}{"a": arr}},
	}
}

func (j *c11Job) evalSub(c *run.Ctx, sub gen.Sub, n int, parsed map[string]impl.Func) {
	for fi, f := range c11Forms(sub, n) {
		c.Tick()
		if j.freshPools && fi >= 1 {
			// empty sync.Pool (two collections: primary and victim cache): the union forms then start
			// with a freshly allocated, zero-capacity result buffer as in a new process
			runtime.GC()
			runtime.GC()
		}
		r := gen.Render(f.p, nil)
		key := r.Text
		fn, ok := parsed[key]
		if !ok {
			pr := impl.Parse(r.Text, &j.env.Cfg)
			if pr.F == nil {
				c.Violate(run.Violation{
					Sig:    "parse-rejected:" + gen.Shape(f.p),
					Detail: fmt.Sprintf("%s: Parse rejected an in-range slice/index: %s %s %s", r.Text, pr.ErrType, pr.ErrMsg, pr.Panic),
					Size:   len(r.Text),
					Case:   caseOfP("C11", f.p, r.Text, gen.JSON(f.doc), modeFloat, "funcs"),
				})
				continue
			}
			fn = pr.F
			parsed[key] = fn
		}
		out := spec.Eval(f.p, f.doc, j.env.Model)
		res := impl.Call(fn, f.doc)
		c.Evals++
		c.Traces++
		c.States++
		c.Transitions++
		c.Outcome(res.Key())
		if len(out.Nodes) > 0 {
			c.Nontrivial++
		}
		ok2, kind, detail := c01Judge(&out, res)
		if ok2 && res.ErrType == "" {
			// additionally: every selected value is an index inside the array
			for _, v := range res.Values {
				if x, isf := v.(float64); !isf || x < 0 || int(x) >= n {
					ok2, kind, detail = false, "outside-array", fmt.Sprintf("selected %v outside [0,%d)", v, n)
				}
			}
		}
		if !ok2 {
			// judge a fresh evaluation only (DESIGN §5): a parsed function reused across array
			// lengths that answers differently from a fresh one is history dependence (C05)
			if fp := impl.Parse(r.Text, &j.env.Cfg); fp.F != nil {
				// "fresh" as in a new process: freshly parsed function AND empty pools
				runtime.GC()
				runtime.GC()
				fres := impl.Call(fp.F, gen.Clone(f.doc))
				if fok, _, _ := c01Judge(&out, fres); fok {
					c.Add("history_dependence_seen", 1)
					delete(parsed, key)
					continue
				}
			}
		}
		if ok2 {
			if fi == 0 && len(out.Nodes) > 2 && sub.Kind == gen.SSlice && !sub.St.Omitted && sub.St.V < 0 {
				c.Sample(map[string]interface{}{"path": r.Text, "len": n, "result": show(res.Values)})
			}
			continue
		}
		c.Violate(run.Violation{
			Sig:    kind + ":" + gen.Shape(f.p) + c11SignSig(sub),
			Detail: fmt.Sprintf("%s on %s: %s", r.Text, gen.JSON(f.doc), detail),
			Size:   len(r.Text)*100 + n,
			Case:   caseOfP("C11", f.p, r.Text, gen.JSON(f.doc), modeFloat, "funcs"),
		})
	}
}

func sgn(n gen.Num) string {
	switch {
	case n.Omitted:
		return "_"
	case n.V < 0:
		return "-"
	case n.V == 0:
		return "0"
	}
	return "+"
}

func c11SignSig(s gen.Sub) string {
	if s.Kind != gen.SSlice {
		return ""
	}
	return " signs=" + sgn(s.Start) + sgn(s.End) + sgn(s.St)
}

func (j *c11Job) RunUnit(i int, c *run.Ctx) {
	u := j.units[i]
	parsed := map[string]impl.Func{}
	switch u.family {
	case 0:
		s, e := j.small[u.a], j.small[u.b]
		for _, t := range j.small {
			subs := []gen.Sub{gen.Slice(s, e, t)}
			if t.Omitted {
				subs = append(subs, gen.Slice2(s, e))
			}
			for _, sub := range subs {
				for n := 0; n <= c11MaxLen; n++ {
					j.evalSub(c, sub, n, parsed)
				}
			}
		}
	case 1:
		n := u.b
		bs := c11Boundary(n)
		s := bs[u.a]
		for _, e := range bs {
			for _, t := range bs {
				j.evalSub(c, gen.Slice(s, e, t), n, parsed)
			}
		}
	case 2:
		for n := 0; n <= c11MaxLen; n++ {
			seen := map[int64]bool{}
			for _, v := range append(j.small[1:], c11Boundary(n)[1:]...) {
				if seen[v.V] {
					continue
				}
				seen[v.V] = true
				j.evalSub(c, gen.Sub{Kind: gen.SIndex, N: v}, n, parsed)
			}
		}
	case 6:
		s := c11Spelled()[u.a]
		for _, e := range c11Spelled() {
			for _, t := range c11Spelled() {
				for n := 0; n <= 4; n++ {
					j.evalSub(c, gen.Slice(s, e, t), n, parsed)
				}
			}
		}
		for n := 0; n <= 4 && !s.Omitted; n++ {
			j.evalSub(c, gen.Sub{Kind: gen.SIndex, N: s}, n, parsed)
		}
	case 5:
		s := c11LongBounds()[u.a]
		for _, e := range c11LongBounds() {
			for _, t := range c11LongSteps() {
				for _, n := range c11LongLens {
					j.freshPools = t.Omitted && n > 16
					j.evalSub(c, gen.Slice(s, e, t), n, parsed)
					j.freshPools = false
				}
			}
		}
		for _, n := range c11LongLens {
			if !s.Omitted {
				j.evalSub(c, gen.Sub{Kind: gen.SIndex, N: s}, n, parsed)
			}
		}
	case 4:
		outer := c11Tiny()[u.a]
		for _, inner := range c11Tiny() {
			p := gen.P('$', gen.Union(outer), gen.Union(inner))
			r := gen.Render(p, nil)
			pr := impl.Parse(r.Text, &j.env.Cfg)
			if pr.F == nil {
				continue
			}
			for _, dims := range [][2]int{{2, 2}, {3, 2}, {2, 3}, {3, 3}, {10, 4}, {5, 18}} {
				c.Tick()
				doc := make([]interface{}, dims[0])
				for i := range doc {
					row := make([]interface{}, dims[1])
					for k := range row {
						row[k] = float64(10*i + k)
					}
					doc[i] = row
				}
				out := spec.Eval(p, doc, j.env.Model)
				res := impl.Call(pr.F, doc)
				c.Evals++
				c.Traces++
				c.States++
				c.Transitions += 2
				c.Outcome("nested/" + res.Key())
				if len(out.Nodes) > 0 {
					c.Nontrivial++
				}
				if ok, kind, detail := c01Judge(&out, res); !ok {
					// a fresh Parse decides (history dependence is C05's)
					if fp := impl.Parse(r.Text, &j.env.Cfg); fp.F != nil {
						if fok, _, _ := c01Judge(&out, impl.Call(fp.F, doc)); fok {
							c.Add("history_dependence_seen", 1)
							continue
						}
					}
					c.Violate(run.Violation{
						Sig:    "nested-" + kind + ":" + c11SignSig(outer) + c11SignSig(inner),
						Detail: fmt.Sprintf("%s on %s: %s", r.Text, gen.JSON(doc), detail),
						Size:   len(r.Text)*100 + dims[0]*dims[1],
						Case:   caseOfP("C11", p, r.Text, gen.JSON(doc), modeFloat, "funcs"),
					})
				}
			}
		}
	case 3:
		// integers outside the int range must be rejected at parse time with ErrorInvalidArgument
		for _, raw := range []string{"9223372036854775808", "-9223372036854775809", "1000000000000000000000000000000", "+9223372036854775808"} {
			for pos := 0; pos < 4; pos++ {
				var text string
				switch pos {
				case 0:
					text = "$[" + raw + "]"
				case 1:
					text = "$[" + raw + ":]"
				case 2:
					text = "$[:" + raw + "]"
				case 3:
					text = "$[::" + raw + "]"
				}
				pr := impl.Parse(text, nil)
				c.Evals++
				c.Outcome("parse:" + pr.ErrType)
				c.Nontrivial++
				if pr.ErrType != "ErrorInvalidArgument" || pr.F != nil || pr.Panic != "" {
					c.Violate(run.Violation{
						Sig:    "out-of-range-accepted",
						Detail: fmt.Sprintf("%s: integer outside the int range must be rejected with ErrorInvalidArgument; got f!=nil:%v err=%s %s panic=%s", text, pr.F != nil, pr.ErrType, pr.ErrMsg, pr.Panic),
						Size:   len(text),
						Case:   map[string]interface{}{"path": text, "doc": "[]", "mode": modeName[0], "expect": "ErrorInvalidArgument"},
					})
				}
			}
		}
	}
}

// pyCrossCheck recomputes the whole slice table with the real python3 and compares it with
// the Go oracle (spec.PySlice). A disagreement is an oracle bug, not a property violation.
func pyCrossCheck() (cases int, note string) {
	if _, err := exec.LookPath("python3"); err != nil {
		return 0, "python3 not available: cross-check skipped"
	}
	type q struct {
		s, e, t gen.Num
		n       int
	}
	var qs []q
	small := c11Small()
	for _, s := range small {
		for _, e := range small {
			for _, t := range small {
				for n := 0; n <= c11MaxLen; n++ {
					qs = append(qs, q{s, e, t, n})
				}
			}
		}
	}
	for n := 0; n <= c11MaxLen; n++ {
		bs := c11Boundary(n)
		for _, s := range bs {
			for _, e := range bs {
				for _, t := range bs {
					qs = append(qs, q{s, e, t, n})
				}
			}
		}
	}
	py := func(x gen.Num) string {
		if x.Omitted {
			return "None"
		}
		return strconv.FormatInt(x.V, 10)
	}
	var in strings.Builder
	for _, x := range qs {
		fmt.Fprintf(&in, "%s %s %s %d\n", py(x.s), py(x.e), py(x.t), x.n)
	}
	script := `
import sys
out=[]
for line in sys.stdin:
    s,e,t,n=line.split()
    f=lambda v: None if v=='None' else int(v)
    t=f(t)
    if t==0:
        out.append('')
    else:
        out.append(','.join(map(str,list(range(int(n)))[slice(f(s),f(e),t)])))
sys.stdout.write('\n'.join(out)+'\n')
`
	cmd := exec.Command("python3", "-c", script)
	cmd.Stdin = strings.NewReader(in.String())
	outb, err := cmd.Output()
	if err != nil {
		return 0, "python3 failed: " + err.Error()
	}
	sc := bufio.NewScanner(strings.NewReader(string(outb)))
	sc.Buffer(make([]byte, 1<<20), 1<<26)
	i := 0
	for sc.Scan() {
		if i >= len(qs) {
			break
		}
		x := qs[i]
		got := spec.PySlice(x.s, x.e, x.t, x.n)
		var parts []string
		for _, g := range got {
			parts = append(parts, strconv.Itoa(g))
		}
		if strings.Join(parts, ",") != sc.Text() {
			return i, fmt.Sprintf("ORACLE DISAGREES WITH python3 at [%s:%s:%s] len %d: go=%v python=%s", py(x.s), py(x.e), py(x.t), x.n, got, sc.Text())
		}
		i++
	}
	if i != len(qs) {
		return i, "python3 output truncated"
	}
	return i, "agree"
}

func init() {
	run.Register(&run.Check{
		ID:    "C11",
		Level: "model_checking",
		Rule:  "every (subscript, array length, position) is a distinct case; positions: alone, inside a union [s,0,s], after recursive descent, and applied to the elements selected by another slice (nested); non-trivial = the slice/index selects at least one element",
		Assumptions: []string{
			"oracle = Python slice semantics computed with math/big (spec.PySlice), itself recomputed by the real python3 over the whole table in every run",
			"array elements are their own indices, so a selected value outside [0,len) is detected directly",
		},
		Bounds: map[string]string{
			"quick":    "start,end,step in {omitted} U [-7..7] (both spellings of an omitted step), lengths 0..6 - 28,672+ slices completely; every combination of bounds from {omitted,-2..2,+-2^31,+-(2^63-1),-2^63,+-(2^63-2),+-len,+-(len+1)}; every index from the same sets; out-of-int-range integers at each position; every pair (outer, inner) of the 216 slices with bounds in {omitted,-2..2} on 2x2..3x3 arrays of arrays; long arrays: lengths 9,17,33,40,50,70,130 x start,end in {omitted,0,1,8,16,17,31,32,33,35,40,49,50,64,69,-1,-9,-33,-50,+-200} x step in {omitted,1,2,3,-1,-2,17,33}, lengths ascending on one parsed function",
			"thorough": "same as quick (the space is enumerated completely in both tiers)",
		},
		New: newC11,
		Finish: func(tier string, total *run.Ctx, cov map[string]interface{}) {
			n, note := pyCrossCheck()
			cov["python_crosscheck_cases"] = n
			cov["python_crosscheck"] = note
			if strings.HasPrefix(note, "ORACLE") {
				fmt.Println("INTERNAL: C11 oracle bug:", note)
			}
		},
		Replay: func(cs map[string]interface{}) (bool, string) {
			if cs["expect"] == "ErrorInvalidArgument" {
				path, _ := cs["path"].(string)
				pr := impl.Parse(path, nil)
				return pr.ErrType != "ErrorInvalidArgument", "Parse gave " + pr.ErrType + " " + pr.ErrMsg
			}
			return replayProduct(cs, func(path string, p *gen.Path, doc interface{}, env *impl.Env) (bool, string) {
				pr := impl.Parse(path, &env.Cfg)
				if pr.F == nil {
					return true, "Parse rejected: " + pr.ErrType + " " + pr.ErrMsg + pr.Panic
				}
				out := spec.Eval(p, doc, env.Model)
				res := impl.Call(pr.F, doc)
				ok, _, detail := c01Judge(&out, res)
				return !ok, detail
			})
		},
	})
}
