//go:build verif

package checks

import (
	"fmt"
	"strings"

	"verif/h/gen"
	"verif/h/impl"
	"verif/h/run"
	"verif/h/sched"
	"verif/h/spec"
)

// C07: result order is deterministic. The explorer owns the iteration order of every range
// over a map executed by the package (instrumented build) and enumerates it; in every explored
// execution the result sequence must equal the model's (ascending byte order of keys, index
// order, written order, pre-order).

// keys whose byte, rune, UTF-16 and length orders differ
var c07Keys = []string{"", "10", "9", "B", "a", "aa", "b", "\u00e9", "e\u0301", "~", "\uffff", "\U0001F600"}

type c07Case struct {
	p   *gen.Path
	doc interface{}
	pre int // index into c07Preludes
}

type c07Job struct {
	tier  string
	paths []*gen.Path
	docs  []interface{}
	env   *impl.Env
}

func c07Subsets(keys []string, k int) [][]string {
	var out [][]string
	var rec func(start int, cur []string)
	rec = func(start int, cur []string) {
		if len(cur) == k {
			out = append(out, append([]string{}, cur...))
			return
		}
		for i := start; i < len(keys); i++ {
			rec(i+1, append(cur, keys[i]))
		}
	}
	rec(0, nil)
	return out
}

func newC07(tier string) run.Job {
	sched.Install()
	j := &c07Job{tier: tier, env: impl.NewEnv()}
	a := gen.Name("a")
	at := func(steps ...gen.Step) *gen.Path { return gen.P('@', steps...) }
	j.paths = []*gen.Path{
		gen.P('$', gen.Wild()),
		gen.P('$', gen.BWild()),
		gen.P('$', gen.Rec(gen.Wild())),
		gen.P('$', gen.Multi("*", "*")),
		gen.P('$', gen.Multi("a", "*")),
		gen.P('$', gen.Filter(gen.Cmp(">", gen.OpP(at()), gen.LitNum(0)))),
		gen.P('$', gen.Wild(), a),
		gen.P('$', gen.Rec(a)),
		gen.P('$', gen.Filter(gen.Exists(at(a)))),
		gen.P('$', gen.Filter(gen.Cmp(">", gen.OpP(at(a)), gen.LitNum(0))), a),
		gen.P('$', gen.Rec(gen.Filter(gen.Exists(at(a))))),
		gen.P('$', gen.Wild(), gen.Wild()),
		gen.P('$', gen.Filter(gen.Exists(at(gen.Wild())))),
		gen.P('$', gen.Rec(gen.Wild()), gen.Wild()),
		gen.P('$', gen.Wild()).F("g"),
		gen.P('$', gen.Filter(gen.Cmp("==", gen.OpP(at(gen.Wild()).F("cnt")), gen.LitNum(2)))),
		// order-sensitive aggregates: the first member in key order
		gen.P('$', gen.Wild()).F("first"),
		gen.P('$', gen.Filter(gen.Cmp("==", gen.OpP(at(gen.Wild()).F("first")), gen.LitNum(1)))),
		gen.P('$', gen.Filter(gen.Cmp(">", gen.OpP(at(gen.Rec(gen.Wild())).F("first")), gen.LitNum(0))), gen.Wild()),
		gen.P('$', gen.Multi("b", "a", "~", "")),
		gen.P('$', gen.Rec(gen.Multi("b", "a", "aa"))),
	}
	maxSubset := 4
	mk := func(ks []string, val func(i int) interface{}) interface{} {
		m := map[string]interface{}{}
		for i, k := range ks {
			m[k] = val(i)
		}
		return m
	}
	for k := 2; k <= maxSubset; k++ {
		for _, ks := range c07Subsets(c07Keys, k) {
			// numbers; objects with a; nested objects with two tricky keys
			j.docs = append(j.docs, mk(ks, func(i int) interface{} { return float64(i + 1) }))
			j.docs = append(j.docs, mk(ks, func(i int) interface{} { return map[string]interface{}{"a": float64(i + 1)} }))
			if k <= 3 {
				ks := ks
				j.docs = append(j.docs, mk(ks, func(i int) interface{} {
					inner := map[string]interface{}{}
					inner[c07Keys[(i*5+1)%len(c07Keys)]] = float64(10*i + 1)
					inner[c07Keys[(i*5+4)%len(c07Keys)]] = float64(10*i + 2)
					if len(inner) < 2 {
						inner["zz"] = float64(10*i + 3)
					}
					return inner
				}))
			}
		}
	}
	// documents in which one container is referenced from several places
	ws := gen.WideDocs()
	j.docs = append(j.docs, ws[len(ws)-4:]...)
	// single objects with 5..12 keys
	for n := 5; n <= len(c07Keys); n++ {
		j.docs = append(j.docs, mk(c07Keys[:n], func(i int) interface{} { return float64(i + 1) }))
		j.docs = append(j.docs, mk(c07Keys[len(c07Keys)-n:], func(i int) interface{} { return map[string]interface{}{"a": float64(i + 1)} }))
	}
	// keys that are not valid UTF-8 (maps built in Go: legacy encodings, binary tags); byte order
	// is still the order, and keys that differ only in invalid bytes are still different keys
	bad := []string{"caf\xe8", "caf\xe9", "\xff", "\xf0\x90\x80\x80", "\xc3", "a"}
	for n := 2; n <= len(bad); n++ {
		j.docs = append(j.docs, mk(bad[:n], func(i int) interface{} { return float64(i + 1) }))
		j.docs = append(j.docs, mk(bad[len(bad)-n:], func(i int) interface{} { return map[string]interface{}{"a": float64(i + 1)} }))
	}
	return j
}

const c07Chunk = 16

func (j *c07Job) NumUnits() int { return (len(j.docs) + c07Chunk - 1) / c07Chunk }
func (j *c07Job) Describe(i int) map[string]interface{} {
	return map[string]interface{}{"unit": i, "sig": fmt.Sprintf("c07unit:%d", i)}
}

func c07Map(n int) map[string]interface{} {
	m := map[string]interface{}{}
	for i := 0; i < n; i++ {
		m[fmt.Sprintf("k%02d", i)] = float64(i)
	}
	return m
}

// c07Preludes: evaluations performed (on maps of these sizes, in this order) before the
// evaluation under test, so that the pooled key buffer has a history: larger, smaller,
// larger-then-smaller, much larger.
var c07Preludes = [][]int{nil, {7}, {1}, {12}, {12, 3}, {3, 12}}

// c07Edit: the pseudo-prelude "evaluate, edit the same map in place keeping its size, evaluate again".
const c07Edit = 100

// editInPlace removes the smallest key of a top-level object and adds a new largest one.
func editInPlace(doc interface{}) {
	m, ok := doc.(map[string]interface{})
	if !ok || len(m) == 0 {
		return
	}
	ks := gen.SortedKeys(m)
	v := m[ks[0]]
	delete(m, ks[0])
	m["zzz-added"] = v
}

func (j *c07Job) runOnce(pathText string, doc interface{}, pre int, prefix []int) (x *sched.Exec, res impl.CallResult) {
	if pre == c07Edit {
		sched.ResetPools()
		x, pmsg := sched.RunSequential(sched.Options{MapChoices: true}, prefix, func() {
			pr := impl.Parse(pathText, &j.env.Cfg)
			if pr.F == nil {
				res = impl.CallResult{ErrType: "parse:" + pr.ErrType}
				return
			}
			work := gen.Clone(doc)
			impl.Call(pr.F, work)
			editInPlace(work)
			res = impl.Call(pr.F, work)
		})
		if pmsg != "" {
			res.Panic = pmsg
		}
		return x, res
	}
	sched.ResetPools()
	x, pmsg := sched.RunSequential(sched.Options{PoolChoices: pre != 0, MapChoices: true}, prefix, func() {
		pr := impl.Parse(pathText, &j.env.Cfg)
		if pr.F == nil {
			res = impl.CallResult{ErrType: "parse:" + pr.ErrType}
			return
		}
		for _, n := range c07Preludes[pre] {
			impl.Call(pr.F, c07Map(n))
		}
		res = impl.Call(pr.F, doc)
	})
	if pmsg != "" {
		res.Panic = pmsg
	}
	return x, res
}

func (j *c07Job) RunUnit(i int, c *run.Ctx) {
	lo, hi := i*c07Chunk, (i+1)*c07Chunk
	if hi > len(j.docs) {
		hi = len(j.docs)
	}
	bound := 1
	if j.tier == "thorough" {
		bound = 2
	}
	for di := lo; di < hi; di++ {
		doc := j.docs[di]
		docText := gen.JSON(doc)
		for _, p := range j.paths {
			pathText := gen.Render(p, nil).Text
			out0 := spec.Eval(p, doc, j.env.Model)
			dm, isMap := doc.(map[string]interface{})
			modesList := make([]int, 0, len(c07Preludes)+1)
			for pre := range c07Preludes {
				modesList = append(modesList, pre)
			}
			if isMap && len(dm) >= 5 {
				modesList = append(modesList, c07Edit)
			}
			for _, pre := range modesList {
				if pre != 0 && di%4 != 0 && (!isMap || len(dm) < 5) {
					continue // pool-recycling preludes on every fourth small document and on every large one
				}
				out := out0
				if pre == c07Edit {
					// the oracle for the second evaluation is the model on the edited document;
					// values are compared structurally, so an equal copy serves
					edited := gen.Clone(doc)
					editInPlace(edited)
					out = spec.Eval(p, edited, j.env.Model)
				}
				want := out.Values()
				violated := false
				orders := map[string]bool{}
				st := sched.Explore(bound, 50000, func(prefix []int) *sched.Exec {
					c.Tick()
					x, res := j.runOnce(pathText, doc, pre, prefix)
					c.Evals++
					orders[show(res.Values)] = true
					ok, _, detail := c01Judge(&out, res)
					if !ok && !violated {
						_, res2 := j.runOnce(pathText, doc, pre, trimChoices(append([]int{}, x.Choices...)))
						if ok2, _, d2 := c01Judge(&out, res2); ok2 || d2 != detail {
							c.Add("nondeterministic_replays", 1)
						} else {
							violated = true
							var sites []string
							for k, ch := range x.Choices {
								if ch != 0 {
									sites = append(sites, fmt.Sprintf("%s -> order #%d", x.Points[k].Site, ch))
								}
							}
							c.Violate(run.Violation{
								Sig:    "order:" + gen.Shape(p),
								Detail: fmt.Sprintf("%s on %s with map iteration [%s]: %s", pathText, docText, strings.Join(sites, "; "), detail),
								Size:   len(docText) + len(pathText)*10,
								Case: func() map[string]interface{} {
									cs := caseOf("C07", pathText, docText, modeFloat, "funcs")
									cs["ast"], cs["pre"], cs["choices"] = jsonRaw(p), pre, choicesString(trimChoices(x.Choices))
									return cs
								}(),
							})
						}
					}
					return x
				}, func(x *sched.Exec) bool { return !violated })
				c.States += int64(st.Execs)
				c.Transitions += int64(st.Execs * st.MaxPoints)
				c.Traces += int64(st.Execs)
				if len(want) > 1 {
					c.Nontrivial++
				}
				c.Outcome(fmt.Sprintf("distinct_result_orders=%d", len(orders)))
				_ = want
				if len(want) > 2 && di%40 == 0 && pre == 0 {
					c.Sample(map[string]interface{}{"path": pathText, "doc": docText, "executions": st.Execs, "result_in_every_execution": show(want)})
				}
			}
		}
	}
}

func init() {
	run.Register(&run.Check{
		ID:    "C07",
		Level: "model_checking",
		Rule:  "every (path, document, pool-recycling prelude, assignment of iteration orders to the map ranges executed) within the deviation bound is one execution; the result sequence must equal the reference model's in each; non-trivial = the model selects at least two values",
		Assumptions: []string{
			"the instrumented build routes every range over a string-keyed map of the package through the explorer: option 0 = ascending order, all n! orders for maps of <=4 keys, 2n rotations/reversed rotations beyond; vinstr reports ranges it could not control (none today)",
			"keys: the empty key, \"10\", \"9\", \"B\", \"a\", \"aa\", \"b\", precomposed and decomposed e-acute, \"~\", U+FFFF, U+1F600 (byte order differs from rune, UTF-16 and length order)",
		},
		Bounds: map[string]string{
			"quick":    "21 paths with wildcard, filter, recursive, multi-name and aggregate steps x objects over every 2-, 3- and 4-key subset of 12 keys (values: numbers, objects, nested objects) plus objects of 5..12 keys and 4 documents that share containers; every iteration order at ONE map range per execution; every fourth small document and every 5..12-key document also after evaluations on maps of 7, 1, 12, 12-then-3 and 3-then-12 keys (pool recycling) with pool answers enumerated; large objects also evaluated, edited in place (one key removed, one added) and evaluated again",
			"thorough": "same documents; orders deviating at up to TWO map ranges per execution",
		},
		New: newC07,
		Replay: func(cs map[string]interface{}) (bool, string) {
			sched.Install()
			j := &c07Job{env: impl.NewEnv()}
			p := astOf(cs)
			path, _ := cs["path"].(string)
			docText, _ := cs["doc"].(string)
			chs, _ := cs["choices"].(string)
			pre := 0
			fmt.Sscan(fmt.Sprint(cs["pre"]), &pre)
			_ = docText
			doc := docOfCase(cs)
			oracleDoc := doc
			if pre == c07Edit {
				oracleDoc = gen.Clone(doc)
				editInPlace(oracleDoc)
			}
			out := spec.Eval(p, oracleDoc, j.env.Model)
			_, res := j.runOnce(path, doc, pre, parseChoices(chs))
			ok, _, detail := c01Judge(&out, res)
			return !ok, detail
		},
	})
}
