package checks

import (
	"encoding/json"
	"errors"
	"fmt"
	"math"
	"sort"
	"strings"
	"time"

	"verif/h/gen"
	"verif/h/impl"
	"verif/h/run"
	"verif/h/spec"
)

// C20: values that are not decoded JSON are opaque leaves.

type c20Struct struct{ A int }
type c20Str string
type c20Bool bool
type c20Float float64

var c20Ptr = &c20Struct{A: 1}
var c20Func = func() {}
var c20Chan = make(chan int)
var c20Err = errors.New("x")

// c20Values is the registry of non-JSON values (name -> value); names appear in replay files.
var c20Values = map[string]interface{}{
	"int":               int(1),
	"int64":             int64(1),
	"float32":           float32(1),
	"uint8":             uint8(1),
	"[]int":             []int{1},
	"[]string":          []string{"a"},
	"map[string]int":    map[string]int{"a": 1},
	"map[string]string": map[string]string{"a": "a"},
	"struct":            c20Struct{A: 1},
	"struct{}":          struct{}{},
	"*struct":           c20Ptr,
	"nil*struct":        (*c20Struct)(nil),
	"nilmap":            map[string]int(nil),
	"func":              c20Func,
	"chan":              c20Chan,
	"RawMessage":        json.RawMessage(`1`),
	"[2]int":            [2]int{1, 2},
	"complex128":        complex128(1),
	"time.Time":         time.Time{},
	"namedstring":       c20Str("a"),
	"namedbool":         c20Bool(true),
	"namedfloat":        c20Float(1),
	"error":             c20Err,
	"[]struct":          []c20Struct{{1}},
	"Number(abc)":       json.Number("abc"),   // a json.Number the decoder never produces (compares as 0, like the library's Float64 fallback)
	"Number(1e999)":     json.Number("1e999"), // a json.Number the decoder does produce with UseNumber: out of float64 range
	"NaN":               math.NaN(),
	"+Inf":              math.Inf(1),
}

func c20Names() []string {
	var ns []string
	for k := range c20Values {
		ns = append(ns, k)
	}
	sort.Strings(ns)
	return ns
}

// c20Encode renders a document with placeholders {"$nj":name} for non-JSON leaves.
func c20Encode(v interface{}) string {
	switch t := v.(type) {
	case map[string]interface{}:
		var parts []string
		for _, k := range gen.SortedKeys(t) {
			kb, _ := json.Marshal(k)
			parts = append(parts, string(kb)+":"+c20Encode(t[k]))
		}
		return "{" + strings.Join(parts, ",") + "}"
	case []interface{}:
		var parts []string
		for _, x := range t {
			parts = append(parts, c20Encode(x))
		}
		return "[" + strings.Join(parts, ",") + "]"
	case float64:
		if !math.IsNaN(t) && !math.IsInf(t, 0) {
			b, _ := json.Marshal(t)
			return string(b)
		}
	case nil, string, bool:
		b, _ := json.Marshal(t)
		return string(b)
	}
	for name, val := range c20Values {
		if sameOpaque(val, v) {
			return `{"$nj":"` + name + `"}`
		}
	}
	return `{"$nj":"?"}`
}

func c20Decode(text string) interface{} {
	var v interface{}
	if err := json.Unmarshal([]byte(text), &v); err != nil {
		panic(err)
	}
	var rec func(v interface{}) interface{}
	rec = func(v interface{}) interface{} {
		switch t := v.(type) {
		case map[string]interface{}:
			if n, ok := t["$nj"].(string); ok && len(t) == 1 {
				return c20Values[n]
			}
			for k, x := range t {
				t[k] = rec(x)
			}
		case []interface{}:
			for i, x := range t {
				t[i] = rec(x)
			}
		}
		return v
	}
	return rec(v)
}

// leafSlots returns setters for every leaf position of a document (pre-order, sorted keys).
func leafSlots(doc *interface{}) []func(interface{}) {
	var out []func(interface{})
	var rec func(get func() interface{}, set func(interface{}))
	rec = func(get func() interface{}, set func(interface{})) {
		switch t := get().(type) {
		case map[string]interface{}:
			for _, k := range gen.SortedKeys(t) {
				k := k
				rec(func() interface{} { return t[k] }, func(v interface{}) { t[k] = v })
			}
		case []interface{}:
			for i := range t {
				i := i
				rec(func() interface{} { return t[i] }, func(v interface{}) { t[i] = v })
			}
		default:
			out = append(out, set)
		}
	}
	rec(func() interface{} { return *doc }, func(v interface{}) { *doc = v })
	return out
}

func c20Docs(tier string) *docSet {
	ds := &docSet{modes: []int{modeFloat}}
	add := func(d interface{}) {
		ds.text = append(ds.text, c20Encode(d))
		ds.docs[modeFloat] = append(ds.docs[modeFloat], d)
		ds.pristine[modeFloat] = append(ds.pristine[modeFloat], gen.Clone(d))
	}
	names := c20Names()
	singleBound, pairBound := 3, 4
	if tier == "thorough" {
		singleBound, pairBound = 4, 4
	}
	// every single leaf replaced by every value
	for _, base := range gen.Docs(gen.DocSpec{MaxNodes: singleBound, Keys: gen.KAB, Scalars: gen.S5, MaxArr: 3}) {
		nLeaves := len(leafSlots(&base))
		for li := 0; li < nLeaves; li++ {
			for _, n := range names {
				d := gen.Clone(base)
				leafSlots(&d)[li](c20Values[n])
				add(d)
			}
		}
	}
	// two leaves replaced: by the same value (equality through two paths) and, in thorough, by
	// every ordered pair of values; base documents restricted to those with exactly two leaves
	for _, base := range gen.Docs(gen.DocSpec{MaxNodes: pairBound, Keys: gen.KAB, Scalars: []interface{}{float64(1)}, MaxArr: 3}) {
		if len(leafSlots(&base)) != 2 {
			continue
		}
		for i, n1 := range names {
			for k, n2 := range names {
				if tier != "thorough" && k != i && k != (i+1)%len(names) {
					continue
				}
				d := gen.Clone(base)
				sl := leafSlots(&d)
				sl[0](c20Values[n1])
				sl[1](c20Values[n2])
				add(d)
			}
		}
	}
	return ds
}

func c20ValueName(text string) string {
	// signature helper: which non-JSON types occur in the document
	var ns []string
	for _, n := range c20Names() {
		if strings.Contains(text, `{"$nj":"`+n+`"}`) {
			ns = append(ns, n)
		}
	}
	return strings.Join(ns, "+")
}

func c20Oracle(j *productJob, c *run.Ctx, pc *pathCase, di, m int, out *spec.Outcome, res impl.CallResult) {
	if out.Unspec {
		c.Add("unspecified_skipped", 1)
		return
	}
	c.Outcome(res.Key())
	if len(out.Nodes) > 0 || res.ErrType == "ErrorTypeUnmatched" {
		c.Nontrivial++
	}
	ok, kind, detail := c01Judge(out, res)
	if ok && len(out.Nodes) == 0 {
		ok, kind, detail = c15Judge(out, pc.r.Pos, res)
	}
	if ok {
		if res.ErrType == "ErrorTypeUnmatched" && strings.Contains(res.ErrMsg, "checks.") {
			c.Sample(map[string]interface{}{"path": pc.r.Text, "doc": j.ds.text[di], "error": res.ErrMsg})
		}
		return
	}
	fres, fdoc := j.freshEval(pc.r.Text, m, di)
	fout := spec.Eval(pc.p, fdoc, j.env.Model)
	fok, fk, fd := c01Judge(&fout, fres)
	if fok && len(fout.Nodes) == 0 {
		fok, fk, fd = c15Judge(&fout, pc.r.Pos, fres)
	}
	if fok {
		c.Add("history_dependence_seen", 1)
		return
	}
	kind, detail = fk, fd
	c.Violate(run.Violation{
		Sig:    kind + ":" + c20ValueName(j.ds.text[di]) + ":" + gen.Shape(pc.p),
		Detail: fmt.Sprintf("%s on %s: %s", pc.r.Text, j.ds.text[di], detail),
		Size:   len(pc.r.Text)*100 + len(j.ds.text[di]),
		Case:   caseOfP("C20", pc.p, pc.r.Text, j.ds.text[di], m, "funcs"),
	})
}

func init() {
	run.Register(&run.Check{
		ID:    "C20",
		Level: "model_checking",
		Rule:  "every (path, document with one or two leaves replaced by a non-JSON Go value) is a distinct case; non-trivial = the model selects something or the call fails with ErrorTypeUnmatched",
		Assumptions: []string{
			"the reference model needs no special case: a value that is neither map[string]interface{} nor []interface{} is a scalar for navigation, matches no literal/ordering/regex comparison, and is compared with reflect.DeepEqual in path==path",
			"24 value types: int, int64, float32, uint8, []int, []string, map[string]int, map[string]string, struct, struct{}, *struct, nil *struct, nil map, func, chan, json.RawMessage, [2]int, complex128, time.Time, named string/bool/float, error, []struct",
		},
		Bounds: map[string]string{
			"quick":    "documents of <=3 nodes with every single leaf (and the root) replaced by each of 24 values, plus two-leaf documents of <=4 nodes with both leaves replaced by the same value or neighbouring values; paths of <=2 steps over the 50-step alphabet, each also with 7 trailing functions",
			"thorough": "single replacements in documents of <=4 nodes, every ordered pair of values in two-leaf documents of <=4 nodes; same paths",
		},
		New: func(tier string) run.Job {
			l := gen.Ladder{Alpha: gen.SigmaFull(), Depth: 2, Funcs: gen.FuncSuffixes(), FuncDepth: 2, Modes: []int{modeFloat}}
			return &productJob{id: "C20", units: unitsOf([]gen.Ladder{l}), ds: c20Docs(tier), env: impl.NewEnv(), oracle: c20Oracle, needModel: true}
		},
		Replay: func(cs map[string]interface{}) (bool, string) {
			path, _ := cs["path"].(string)
			docText, _ := cs["doc"].(string)
			p := astOf(cs)
			doc := c20Decode(docText)
			env := impl.NewEnv()
			pr := impl.Parse(path, &env.Cfg)
			if pr.F == nil || p == nil {
				return false, "does not parse"
			}
			out := spec.Eval(p, doc, env.Model)
			res := impl.Call(pr.F, doc)
			ok, _, detail := c01Judge(&out, res)
			if ok && len(out.Nodes) == 0 {
				ok, _, detail = c15Judge(&out, gen.Render(p, nil).Pos, res)
			}
			return !ok, detail
		},
	})
}
