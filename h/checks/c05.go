//go:build verif

package checks

import (
	"fmt"
	"strings"

	"github.com/AsaiYusuke/jsonpath"

	"verif/h/gen"
	"verif/h/impl"
	"verif/h/run"
	"verif/h/sched"
)

// C05: a parsed function is pure. For every path: all call histories up to a depth over a
// per-path document alphabet (documents chosen so that the outcome flips), an unrelated
// Retrieve that recycles both pools, and "scribble on the most recent result"; pool answers
// are owned by the explorer and enumerated with a deviation bound.

type c05Job struct {
	tier  string
	paths []*gen.Path
	docs  []interface{} // candidate documents (pristine)
	text  []string
	env   *impl.Env
	// the "unrelated" retrievals of operation X (parsed once; they only serve to cycle the pools)
	x1, x2 func(interface{}) ([]interface{}, error)
	xdoc   interface{}
	// nLadder: the first nLadder paths (all step kinds, no exhaustive filter atoms) are also
	// explored in accessor mode
	nLadder int
	// deep: indices of the paths (single steps, $[?(atom)] for the reduced atoms) whose long
	// histories are explored with default pool answers
	deep []int
	// big: indices (into docs) of gen.BigDocs; the relabelled variant of big[k] is docs[big[k]+1]
	big []int
	// nSmall: documents [0,nSmall) are the candidates of the per-path document alphabet
	nSmall int
}

func newC05(tier string) run.Job {
	sched.Install()
	j := &c05Job{tier: tier, env: impl.NewEnv()}
	seen := map[string]bool{}
	add := func(p *gen.Path) {
		t := gen.Render(p, nil).Text
		if !seen[t] {
			seen[t] = true
			j.paths = append(j.paths, p)
		}
	}
	l := gen.Ladder{Alpha: gen.SigmaFull(), Depth: 2, Funcs: gen.FuncSuffixes(), FuncDepth: 1}
	for _, u := range l.Units() {
		for _, p := range u.Paths() {
			add(p)
		}
	}
	j.nLadder = len(j.paths)
	for _, q := range gen.Atoms() {
		add(gen.P('$', gen.Filter(q)))
		add(gen.P('$', gen.Name("a"), gen.Filter(q)))
	}
	for _, cb := range gen.Pairs(gen.ReducedAtoms()) {
		add(gen.P('$', gen.Filter(cb.Q)))
	}
	for _, s := range gen.SigmaFuncFilters() {
		add(gen.P('$', s))
	}
	reduced := map[string]bool{}
	for _, q := range gen.ReducedAtoms() {
		reduced[gen.Render(gen.P('$', gen.Filter(q)), nil).Text] = true
	}
	for pi, p := range j.paths {
		if (pi < j.nLadder && len(p.Steps) == 1 && len(p.Funcs) <= 1) || reduced[gen.Render(p, nil).Text] {
			j.deep = append(j.deep, pi)
		}
	}
	j.x1, _ = jsonpath.Parse(`$..*[?(@.a)]`)
	j.x2, _ = jsonpath.Parse(`$.y.*`)
	j.xdoc = decodeDoc(c05XDoc, modeFloat)
	spec := gen.DocSpec{MaxNodes: 4, Keys: gen.KAB, Scalars: gen.S5, MaxArr: 3}
	j.docs = gen.Docs(spec)
	nSmall := len(j.docs)
	for _, d := range gen.BigDocs() {
		j.big = append(j.big, len(j.docs))
		j.docs = append(j.docs, d, gen.Relabel(d))
	}
	for _, d := range j.docs {
		j.text = append(j.text, gen.JSON(d))
	}
	j.nSmall = nSmall
	return j
}

// units: every path in plain mode, then the ladder paths again in accessor mode
func (j *c05Job) NumUnits() int { return len(j.paths) + j.nLadder + len(j.deep) + len(c05SelfPaths) }

// c05SelfPaths: paths whose user function "self" calls the SAME parsed function again on another
// document while the outer call is still running (re-entrancy: the sequential form of sharing a
// parsed function between goroutines).
var c05SelfPaths = []string{
	`$[-2:].self()`, `$[::-1].self()`, `$.*.self()`, `$..a.self()`, `$[?(@.a)].self()`, `$[0,1].self()`, `$[?(@.self() == 1)]`,
	`$['a','b'].self()`, `$..[?(@.a)].self()`, `$[*,*].self()`, `$[1:].self()`, `$[?(@.a.self() > 0 && @.b)]`, `$..*.self()`,
}

// runSelf explores one re-entrant path: for every ordered pair of documents (outer, inner) out
// of the first four the path succeeds on (small documents first, then the big ones) and for the
// re-entry at the 1st, 2nd or 3rd invocation of self, the outer result and the inner result must
// equal what the path returns on that document with a function that does not re-enter.
func (j *c05Job) runSelf(k int, c *run.Ctx) {
	pathText := c05SelfPaths[k]
	identity := func(v interface{}) (interface{}, error) { return v, nil }
	var ref jsonpath.Config
	ref.SetFilterFunction("self", identity)
	var docs []int
	for di := 0; di < len(j.docs); di++ {
		rf, err := jsonpath.Parse(pathText, ref)
		if err != nil {
			c.Add("paths_rejected", 1)
			return
		}
		if res := impl.Call(rf, gen.Clone(j.docs[di])); res.ErrType == "" && res.Panic == "" && len(res.Values) >= 2 {
			docs = append(docs, di)
			if len(docs) == 3 {
				di = j.nSmall - 1 // continue with the big documents
				if len(j.big) > 0 && j.big[0] > di {
					di = j.big[0] - 1
				}
			}
		}
		if len(docs) == 5 {
			break
		}
	}
	want := map[int]string{}
	for _, di := range docs {
		rf, _ := jsonpath.Parse(pathText, ref)
		want[di] = outcomeString(impl.Call(rf, gen.Clone(j.docs[di])))
	}
	for _, outer := range docs {
		for _, inner := range docs {
			for at := 0; at < 3; at++ {
				c.Tick()
				var f func(interface{}) ([]interface{}, error)
				calls, depth := 0, 0
				innerGot := ""
				innerDoc := gen.Clone(j.docs[inner])
				var cfg jsonpath.Config
				cfg.SetFilterFunction("self", func(v interface{}) (interface{}, error) {
					if depth == 0 {
						if calls == at {
							depth++
							innerGot = outcomeString(impl.Call(f, innerDoc))
							depth--
						}
						calls++
					}
					return v, nil
				})
				var err error
				f, err = jsonpath.Parse(pathText, cfg)
				if err != nil {
					return
				}
				got := outcomeString(impl.Call(f, gen.Clone(j.docs[outer])))
				c.Evals++
				c.States++
				c.Traces++
				c.Nontrivial++
				detail := ""
				switch {
				case got != want[outer]:
					detail = fmt.Sprintf("the outer call on %s returned %s; without re-entry it returns %s", j.text[outer], got, want[outer])
				case innerGot != "" && innerGot != want[inner]:
					detail = fmt.Sprintf("the inner call on %s returned %s; alone it returns %s", j.text[inner], innerGot, want[inner])
				}
				if detail != "" {
					c.Violate(run.Violation{
						Sig:    "reentrant:" + pathText,
						Detail: fmt.Sprintf("%s, self re-enters the same parsed function on %s at its invocation #%d during the call on %s: %s", pathText, j.text[inner], at, j.text[outer], detail),
						Size:   len(j.text[outer]) + len(j.text[inner]),
						Case:   map[string]interface{}{"self": k, "path": pathText, "outer": outer, "inner": inner, "at": at},
					})
					return
				}
			}
		}
	}
	c.Outcome(fmt.Sprintf("self-docs=%d", len(docs)))
}

// unit decodes a unit number: path index, accessor mode, long-history unit
func (j *c05Job) unit(i int) (pi int, acc, deep bool) {
	switch {
	case i < len(j.paths):
		return i, false, false
	case i < len(j.paths)+j.nLadder:
		return i - len(j.paths), true, false
	case i >= len(j.paths)+j.nLadder+len(j.deep):
		return -1, false, false // re-entrant unit
	}
	return j.deep[i-len(j.paths)-j.nLadder], false, true
}
func (j *c05Job) Describe(i int) map[string]interface{} {
	k, acc, deep := j.unit(i)
	if k < 0 {
		t := c05SelfPaths[i-len(j.paths)-j.nLadder-len(j.deep)]
		return map[string]interface{}{"unit": i, "path": t, "reentrant": true, "sig": "self:" + t}
	}
	t := gen.Render(j.paths[k], nil).Text
	return map[string]interface{}{"unit": i, "path": t, "accessor": acc, "long_histories": deep, "sig": "path:" + t}
}

func outcomeString(res impl.CallResult) string {
	switch {
	case res.Panic != "":
		return "panic: " + res.Panic
	case res.ErrType != "":
		return res.ErrType + ": " + res.ErrMsg
	}
	return showAcc(res.Values)
}

// showAcc renders a result slice; accessors are rendered through Get().
func showAcc(vs []interface{}) string {
	if got, isAcc := impl.Unwrap(vs); isAcc && len(vs) > 0 {
		return "accessors" + show(got)
	}
	return show(vs)
}

// docShape is the structure of a document with leaf values erased.
func docShape(v interface{}) string {
	switch t := v.(type) {
	case map[string]interface{}:
		var parts []string
		for _, k := range gen.SortedKeys(t) {
			parts = append(parts, k+":"+docShape(t[k]))
		}
		return "{" + strings.Join(parts, ",") + "}"
	case []interface{}:
		var parts []string
		for _, x := range t {
			parts = append(parts, docShape(x))
		}
		return "[" + strings.Join(parts, ",") + "]"
	}
	return "_"
}

// chooseDocs picks up to n documents for the path by exhaustive scoring over the candidate set
// (simplest first; deterministic): the first document on which the path succeeds, a document with three results
// (or else the one with the most), then the documents of the same shape (only leaf values differ) that give a different outcome - these
// flip the filter atoms of the path -, then the first document of every other outcome class.
func (j *c05Job) chooseDocs(f impl.Func, n int) []int {
	type ev struct {
		key     string
		success bool
		n       int // number of results
	}
	evs := make([]ev, j.nSmall)
	first := -1
	for di, d := range j.docs[:j.nSmall] {
		res := impl.Call(f, gen.Clone(d))
		key := res.ErrType + "/" + show(res.Values)
		evs[di] = ev{key, res.ErrType == "" && res.Panic == "", len(res.Values)}
		if first < 0 && evs[di].success {
			first = di
		}
	}
	var out []int
	seen := map[string]bool{}
	take := func(di int) {
		if len(out) < n && !seen[evs[di].key] {
			seen[evs[di].key] = true
			out = append(out, di)
		}
	}
	if first >= 0 {
		take(first)
		// result sizes matter to buffer reuse: also a document with three results (a grown buffer
		// with spare capacity) and the one with the most results
		most, three := -1, -1
		for di := range evs {
			if evs[di].success {
				if three < 0 && evs[di].n == 3 {
					three = di
				}
				if most < 0 || evs[di].n > evs[most].n {
					most = di
				}
			}
		}
		if three >= 0 && n >= 4 {
			take(three)
		} else if most >= 0 && n >= 4 {
			take(most)
		}
		shape := docShape(j.docs[first])
		// same shape, different outcome: failures first (they flip the atoms), then other successes
		for pass := 0; pass < 2; pass++ {
			for di := range evs {
				if docShape(j.docs[di]) == shape && evs[di].success == (pass == 1) {
					take(di)
				}
			}
		}
	}
	// one representative per error type, then anything new
	errSeen := map[string]bool{}
	for di := range evs {
		et := strings.SplitN(evs[di].key, "/", 2)[0]
		if !evs[di].success && !errSeen[et] {
			errSeen[et] = true
			take(di)
		}
	}
	for di := range evs {
		take(di)
	}
	return out
}

const c05X = -1 // unrelated Retrieve that cycles both pools
const c05W = -2 // overwrite every element of the most recent result with a sentinel

var c05XDoc = `{"z":[{"a":1,"b":{"c":[1,2,3]}},{"a":2}],"y":{"q":1,"r":2,"s":3,"t":4}}`

// c05M encodes "the caller edits document object d in place so that it equals document e"
// (same shape: the root object keeps its identity and its length)
const c05MBase = 10

func c05M(d, e int) int { return -(c05MBase + d*100000 + e) }
func c05IsM(op int) (d, e int, ok bool) {
	if op > -c05MBase {
		return 0, 0, false
	}
	v := -op - c05MBase
	return v / 100000, v % 100000, true
}

// c05EditInPlace makes the object obj (currently some document of the same shape) equal to target
// without replacing the root container.
func c05EditInPlace(obj, target interface{}) {
	t := gen.Clone(target)
	switch o := obj.(type) {
	case map[string]interface{}:
		for k := range o {
			delete(o, k)
		}
		for k, v := range t.(map[string]interface{}) {
			o[k] = v
		}
	case []interface{}:
		copy(o, t.([]interface{}))
	}
}

func c05OpString(op int, text []string) string {
	switch op {
	case c05X:
		return "X(unrelated Retrieve)"
	case c05W:
		return "W(scribble on last result)"
	}
	if d, e, ok := c05IsM(op); ok {
		return "M(the caller edits the object of " + text[d] + " in place to " + text[e] + ")"
	}
	return "f(object " + text[op] + ")"
}

// c05Run executes one history with the given pool-choice prefix on fresh objects and checks it.
func (j *c05Job) c05Run(pathText string, acc bool, hist []int, refs map[int]string, prefix []int) (x *sched.Exec, ok bool, detail string) {
	sched.ResetPools()
	ok = true
	cfg := &j.env.Cfg
	if acc {
		cfg = &j.env.CfgAcc
	}
	x, pmsg := sched.RunSequential(sched.Options{PoolChoices: true}, prefix, func() {
		pr := impl.Parse(pathText, cfg)
		if pr.F == nil {
			ok, detail = false, "does not parse"
			return
		}
		docs := map[int]interface{}{}
		cur := map[int]int{} // object -> the document it currently equals
		obj := func(d int) interface{} {
			if _, have := docs[d]; !have {
				docs[d] = gen.Clone(j.docs[d])
				cur[d] = d
			}
			return docs[d]
		}
		type kept struct {
			slice []interface{}
			want  string
		}
		var results []kept
		verify := func(after string) bool {
			for ri, k := range results {
				if got := showAcc(k.slice); got != k.want {
					ok, detail = false, fmt.Sprintf("result slice #%d returned earlier changed to %s (was %s) after %s", ri, got, k.want, after)
					return false
				}
			}
			for di, d := range docs {
				if !sameJSON(d, j.docs[cur[di]]) {
					ok, detail = false, fmt.Sprintf("document %s was modified to %s", j.text[cur[di]], showVal(d))
					return false
				}
			}
			return true
		}
		for k, op := range hist {
			switch op {
			case c05X:
				j.x1(j.xdoc)
				j.x2(j.xdoc)
			case c05W:
				if len(results) > 0 {
					last := &results[len(results)-1]
					for i := range last.slice {
						last.slice[i] = "SCRIBBLED"
					}
					last.want = showAcc(last.slice)
					// the caller also appends to every result it holds, within its capacity (a result
					// belongs to the caller together with its spare capacity)
					for ri := range results {
						if r := results[ri].slice; cap(r) > len(r) {
							_ = append(r, "APPENDED")
						}
					}
				}
			default:
				if d, e, isM := c05IsM(op); isM {
					c05EditInPlace(obj(d), j.docs[e])
					cur[d] = e
					// earlier results may alias containers the caller has just edited: their
					// expected rendering is re-taken after the edit
					for ri := range results {
						results[ri].want = showAcc(results[ri].slice)
					}
					break
				}
				res := impl.Call(pr.F, obj(op))
				if got := outcomeString(res); got != refs[cur[op]] {
					ok, detail = false, fmt.Sprintf("call #%d f(%s) returned %s; a fresh Retrieve returns %s", k, j.text[cur[op]], got, refs[cur[op]])
					return
				}
				if res.ErrType == "" {
					results = append(results, kept{res.Values, showAcc(res.Values)})
				}
			}
			if !verify(c05OpString(op, j.text)) {
				return
			}
		}
	})
	if pmsg != "" {
		return x, false, "panic: " + pmsg
	}
	return x, ok, detail
}

func (j *c05Job) RunUnit(i int, c *run.Ctx) {
	pi, acc, deep := j.unit(i)
	if pi < 0 {
		j.runSelf(i-len(j.paths)-j.nLadder-len(j.deep), c)
		return
	}
	p := j.paths[pi]
	if acc && j.tier != "thorough" && len(p.Steps) > 1 {
		c.Add("accessor_mode_units_left_to_thorough", 1)
		return // quick tier: accessor-mode histories for the paths of <=1 step
	}
	pathText := gen.Render(p, nil).Text
	cfg := &j.env.Cfg
	if acc {
		cfg = &j.env.CfgAcc
	}
	pr := impl.Parse(pathText, cfg)
	if pr.F == nil {
		c.Add("paths_rejected", 1)
		return
	}
	nDocs, depth, bound := 4, 3, 1
	if j.tier == "thorough" {
		nDocs, depth, bound = 5, 4, 1
		if pi < j.nLadder && len(p.Steps) <= 1 {
			bound = 2 // the shortest paths also with two pool deviations
		}
	}
	if acc {
		depth-- // accessor mode shares everything but the final wrapping: shorter histories
	}
	if deep {
		// long histories: 3 documents + X, default pool answers (most recently released buffer first)
		nDocs, depth, bound = 3, 6, 0
		if j.tier == "thorough" {
			depth = 8
		}
	}
	chosen := j.chooseDocs(pr.F, nDocs)
	// reference outcomes: fresh Retrieve (new Parse) on a deep copy, before any history starts
	refs := map[int]string{}
	for _, di := range chosen {
		fp := impl.Parse(pathText, cfg)
		refs[di] = outcomeString(impl.Call(fp.F, gen.Clone(j.docs[di])))
	}
	alphabet := append(append([]int{}, chosen...), c05X, c05W)
	if deep {
		alphabet = append(append([]int{}, chosen...), c05X)
	}
	// in-place edits between the first two chosen documents of one shape (root kind and length
	// kept), both directions
	for a := 0; a < len(chosen) && len(alphabet) == len(chosen)+2 && !deep; a++ {
		for b := a + 1; b < len(chosen); b++ {
			da, db := j.docs[chosen[a]], j.docs[chosen[b]]
			if docShape(da) == docShape(db) && isContainer(da) {
				alphabet = append(alphabet, c05M(chosen[a], chosen[b]), c05M(chosen[b], chosen[a]))
				break
			}
		}
	}
	violated := false
	exploreHistory := func(hist []int) {
		if c.Expired() {
			c.Cut = true // tier deadline: the rest of this unit is not explored (reported as not exhaustive)
			return
		}
		b := bound
		if b >= 2 && len(hist) > 3 {
			b = 1 // two pool deviations only for histories of length <=3
		}
		st := sched.Explore(b, 20000, func(prefix []int) *sched.Exec {
			c.Tick()
			x, ok, detail := j.c05Run(pathText, acc, hist, refs, prefix)
			c.Evals++
			if !ok && !violated {
				// confirm by replaying the same choices
				_, ok2, detail2 := j.c05Run(pathText, acc, hist, refs, trimChoices(append([]int{}, x.Choices...)))
				if ok2 || detail2 != detail {
					c.Add("nondeterministic_replays", 1)
				} else {
					violated = true
					var hs []string
					for _, op := range hist {
						hs = append(hs, c05OpString(op, j.text))
					}
					c.Violate(run.Violation{
						Sig:    "impure:" + gen.Shape(p),
						Detail: fmt.Sprintf("%s (accessor mode: %v), history [%s], pool answers [%s]: %s", pathText, acc, strings.Join(hs, "; "), choicesString(trimChoices(x.Choices)), detail),
						Size:   len(hist)*1000 + len(pathText),
						Case:   map[string]interface{}{"path": pathText, "accessor": acc, "history": hist, "choices": choicesString(trimChoices(x.Choices))},
					})
				}
			}
			return x
		}, func(x *sched.Exec) bool { return !violated })
		c.States += int64(st.Execs)
		c.Transitions += int64(st.Execs * len(hist))
		c.Traces += int64(st.Execs)
		c.Nontrivial++
	}
	// histories by increasing length (the first counterexample is a shortest one); a history must
	// contain a call, and the longest histories end with a call (a trailing X or W could not be
	// observed by anything after it)
	first := 1
	if deep {
		first = 4 // shorter histories are covered by the unit of the same path above
	}
	for length := first; length <= depth && !violated; length++ {
		var rec func(hist []int)
		rec = func(hist []int) {
			if violated {
				return
			}
			if len(hist) == length {
				hasCall := false
				for _, op := range hist {
					if op >= 0 {
						hasCall = true
					}
				}
				last := hist[len(hist)-1]
				// an edit is explored only after a call on that object (otherwise it is just another document)
				nEdits := 0
				for k, op := range hist {
					if d, _, isM := c05IsM(op); isM {
						called := false
						for _, prev := range hist[:k] {
							if prev == d {
								called = true
							}
						}
						// one edit per history, and the last operation is a call on the edited object
						// (the only operation that can observe a stale answer)
						if !called || k == len(hist)-1 || nEdits > 0 || last != d {
							return
						}
						nEdits++
					}
				}
				// a trailing W is observable only through the other results the caller still holds
				// (its appends land in their neighbourhood): it needs two calls before it
				nCalls := 0
				for _, op := range hist {
					if op >= 0 {
						nCalls++
					}
				}
				if hasCall && (last != c05W || nCalls >= 2) && !(length == depth && last == c05X) {
					exploreHistory(hist)
				}
				return
			}
			for _, op := range alphabet {
				rec(append(append([]int{}, hist...), op))
			}
		}
		rec(nil)
	}
	// big documents (9..18 members, 6 levels, ternary trees): three fixed history shapes on the
	// first two big documents the path succeeds on, default pool answers
	if !acc && !deep && !violated {
		var bs []int
		for _, bi := range j.big {
			if res := impl.Call(pr.F, gen.Clone(j.docs[bi])); res.ErrType == "" && res.Panic == "" {
				bs = append(bs, bi)
				if len(bs) == 2 {
					break
				}
			}
		}
		if len(bs) > 0 {
			b0 := bs[0]
			b1 := bs[len(bs)-1]
			for _, di := range []int{b0, b0 + 1, b1, b1 + 1} {
				if _, have := refs[di]; !have {
					fp := impl.Parse(pathText, cfg)
					refs[di] = outcomeString(impl.Call(fp.F, gen.Clone(j.docs[di])))
				}
			}
			saveBound := bound
			bound = 0
			for _, hist := range [][]int{
				{b0, b1, b0},
				{b0, c05M(b0, b0+1), b0},
				{b1, b0, c05X, b1},
				{b1 + 1, c05M(b1+1, b1), c05X, b1 + 1, b0},
			} {
				if !violated {
					exploreHistory(hist)
				}
			}
			bound = saveBound
			c.Add("big_document_histories", 4)
		}
	}
	c.Outcome(fmt.Sprintf("docs=%d", len(chosen)))
	if i%97 == 0 {
		var ds []string
		for _, d := range chosen {
			ds = append(ds, j.text[d]+" -> "+refs[d])
		}
		c.Sample(map[string]interface{}{"path": pathText, "document_alphabet": ds, "history_depth": depth, "pool_deviations": bound})
	}
}

func init() {
	run.Register(&run.Check{
		ID:    "C05",
		Level: "model_checking",
		Rule:  "every (path, call history, pool-answer sequence) within the bounds is one execution on freshly parsed functions and fresh documents; every call must equal a fresh Retrieve of the same path on that document (reference computed before any history starts); every result slice returned earlier is re-read after every later operation; documents are compared with pristine copies; non-trivial = a history with at least one call",
		Assumptions: []string{
			"pool answers (which recycled buffer a Get returns, or a miss) are owned by the explorer through the instrumented build; option 0 = most recently put",
			"the per-path document alphabet is chosen by exhaustive scoring over all documents of <=4 nodes: the first success, then documents of the same shape whose outcome differs (they flip the filter atoms), then one per remaining outcome class",
			"for every path four fixed histories on the big documents (call/call/call, call/edit in place/call, with the pool-cycling retrieval) with default pool answers",
			"13 re-entrant paths: the user function calls the same parsed function again on another document during the outer call (every ordered pair out of <=5 documents, re-entry at the 1st..3rd invocation); both results must equal the non-re-entrant ones",
			"histories longer than the bound are not explored; state hidden inside the parsed tree is observed only through call results",
		},
		Bounds: map[string]string{
			"quick":    "paths: <=2 steps over the 50-step alphabet (+ functions after <=1 step), every atom as $[?()] and $.a[?()], every A&&B / A||B over 24 atoms, 13 function filters (about 4.6k); alphabet: calls on 4 documents (first success, same-shape documents with another outcome, other outcome classes) + X (unrelated Retrieve cycling both pools) + W (scribble on the last result and append to every result held, within its capacity); M (the caller edits a document object in place into another document of the same shape, after a call on it and before another); all histories of length <=3 in plain mode and <=2 in accessor mode (accessor mode: paths of <=1 step; all ladder paths in the thorough tier); pool answers <=1 deviation; for the single-step paths and the 24 reduced atoms also all histories of length 4..6 over 3 documents + X with default pool answers",
			"thorough": "5 documents, histories of length <=4 (accessor mode <=3), pool answers <=1 deviation (<=2 for paths of <=1 step and histories of length <=3); long histories up to length 8",
		},
		New: newC05,
		Replay: func(cs map[string]interface{}) (bool, string) {
			sched.Install()
			j := newC05("quick").(*c05Job)
			if _, isSelf := cs["self"]; isSelf {
				var k int
				fmt.Sscan(fmt.Sprint(cs["self"]), &k)
				ctx := run.NewReplayCtx()
				j.runSelf(k, ctx)
				if vs := ctx.Violations; len(vs) > 0 {
					return true, vs[0].Detail
				}
				return false, "no violation"
			}
			pathText, _ := cs["path"].(string)
			var hist []int
			if l, ok := cs["history"].([]interface{}); ok {
				for _, x := range l {
					var n int
					fmt.Sscan(fmt.Sprint(x), &n)
					hist = append(hist, n)
				}
			}
			acc, _ := cs["accessor"].(bool)
			cfg := &j.env.Cfg
			if acc {
				cfg = &j.env.CfgAcc
			}
			refs := map[int]string{}
			var used []int
			for _, op := range hist {
				if d, e, isM := c05IsM(op); isM {
					used = append(used, d, e)
				} else if op >= 0 {
					used = append(used, op)
				}
			}
			for _, op := range used {
				{
					fp := impl.Parse(pathText, cfg)
					if fp.F == nil {
						return false, "does not parse"
					}
					refs[op] = outcomeString(impl.Call(fp.F, gen.Clone(j.docs[op])))
				}
			}
			chs, _ := cs["choices"].(string)
			_, ok, detail := j.c05Run(pathText, acc, hist, refs, parseChoices(chs))
			return !ok, detail
		},
	})
}
