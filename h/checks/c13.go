package checks

import (
	"fmt"

	"github.com/AsaiYusuke/jsonpath"

	"verif/h/gen"
	"verif/h/impl"
	"verif/h/run"
	"verif/h/spec"
)

// C13: Accessor.Set writes exactly the selected location; Get is live; Set is nil exactly
// for the root and function outputs.

func readLoc(l spec.Loc) interface{} {
	if l.Kind == spec.LMember {
		return l.M[l.K]
	}
	return l.S[l.I]
}

func writeLoc(l spec.Loc, v interface{}) {
	if l.Kind == spec.LMember {
		l.M[l.K] = v
	} else {
		l.S[l.I] = v
	}
}

func locString(l spec.Loc) string {
	switch l.Kind {
	case spec.LRoot:
		return "root"
	case spec.LComputed:
		return "function output"
	case spec.LMember:
		return fmt.Sprintf("member %q of %s", l.K, showVal(l.M))
	}
	return fmt.Sprintf("element %d of %s", l.I, showVal(l.S))
}

// c13Judge exercises every accessor of one accessor-mode result against the model's locations.
// doc is the live document the call ran on; pristine an equal, untouched copy.
func c13Judge(out *spec.Outcome, res impl.CallResult, doc, pristine interface{}) (ok bool, kind, detail string, sets int) {
	if res.Panic != "" {
		return false, "panic", "panic: " + res.Panic, 0
	}
	if res.ErrType != "" || len(out.Nodes) == 0 {
		return true, "", "", 0 // failing cases: C01/C12
	}
	if len(res.Values) != len(out.Nodes) {
		return false, "count", fmt.Sprintf("%d accessors returned, the model selects %d locations", len(res.Values), len(out.Nodes)), 0
	}
	for i, v := range res.Values {
		a, isAcc := v.(jsonpath.Accessor)
		if !isAcc {
			return false, "not-accessor", fmt.Sprintf("result %d is not an Accessor", i), sets
		}
		n := out.Nodes[i]
		if a.Get == nil {
			return false, "get-nil", fmt.Sprintf("result %d has a nil Get", i), sets
		}
		if g := a.Get(); !sameJSON(g, n.V) {
			return false, "get-value", fmt.Sprintf("accessor %d Get() = %s, selected value is %s", i, showVal(g), showVal(n.V)), sets
		}
		isLoc := n.Loc.Kind == spec.LMember || n.Loc.Kind == spec.LElem
		if !isLoc {
			if a.Set != nil {
				return false, "set-not-nil", fmt.Sprintf("accessor %d is the %s but has a non-nil Set", i, locString(n.Loc)), sets
			}
			continue
		}
		if a.Set == nil {
			return false, "set-nil", fmt.Sprintf("accessor %d is %s but Set is nil", i, locString(n.Loc)), sets
		}
		sentinel := fmt.Sprintf("SENTINEL-%d", i)
		old := readLoc(n.Loc)
		a.Set(sentinel)
		sets++
		now := readLoc(n.Loc)
		got := a.Get()
		writeLoc(n.Loc, old) // undo through the model's location only
		if now != interface{}(sentinel) {
			return false, "set-wrong-location", fmt.Sprintf("Set through accessor %d did not write %s (it holds %s)", i, locString(n.Loc), showVal(now)), sets
		}
		if !sameJSON(doc, pristine) {
			return false, "set-collateral", fmt.Sprintf("Set through accessor %d (%s) changed something else: document is %s after undoing the selected location", i, locString(n.Loc), showVal(doc)), sets
		}
		if got != interface{}(sentinel) {
			return false, "get-after-set", fmt.Sprintf("Get() after Set through accessor %d returned %s", i, showVal(got)), sets
		}
		// liveness: an in-place update of the map entry / element is seen by Get
		live := fmt.Sprintf("LIVE-%d", i)
		writeLoc(n.Loc, live)
		got = a.Get()
		writeLoc(n.Loc, old)
		if got != interface{}(live) {
			return false, "get-not-live", fmt.Sprintf("Get() of accessor %d returned %s after the location was updated in place to %q", i, showVal(got), live), sets
		}
	}
	return true, "", "", sets
}

var c13X impl.Func
var c13XDoc = map[string]interface{}{"p": []interface{}{1.0, 2.0, 3.0}, "q": map[string]interface{}{"r": 4.0, "s": 5.0}}

// c13Interlude performs an unrelated accessor-mode retrieval (it recycles the pooled buffers).
func c13Interlude(env *impl.Env) {
	if c13X == nil {
		c13X = impl.Parse("$..*", &env.CfgAcc).F
	}
	if c13X != nil {
		impl.Call(c13X, c13XDoc)
		impl.Call(c13X, c13XDoc["q"])
	}
}

type c13Job struct {
	productJob
}

func c13Oracle(j *productJob, c *run.Ctx, pc *pathCase, di, m int, out *spec.Outcome, _ impl.CallResult) {
	if out.Unspec {
		c.Add("unspecified_skipped", 1)
		return
	}
	doc := j.ds.docs[m][di]
	j.env.ResetImpl()
	res := impl.Call(pc.fAcc, doc)
	// accessors must stay valid while the library is used for something else
	if res.ErrType == "" && len(res.Values) > 0 {
		c13Interlude(j.env)
	}
	c.Outcome(res.Key())
	ok, kind, detail, sets := c13Judge(out, res, doc, j.ds.pristine[m][di])
	c.Add("set_operations", int64(sets))
	if sets > 0 {
		c.Nontrivial++
	}
	if ok {
		if sets > 1 {
			c.Sample(map[string]interface{}{"path": pc.r.Text, "doc": j.ds.text[di], "accessors": len(res.Values), "sets": sets})
		}
		return
	}
	// fresh evaluation decides
	fdoc := gen.Clone(j.ds.pristine[m][di])
	env := impl.NewEnv()
	pa := impl.Parse(pc.r.Text, &env.CfgAcc)
	if pa.F != nil {
		fout := spec.Eval(pc.p, fdoc, env.Model)
		fres := impl.Call(pa.F, fdoc)
		c13Interlude(env)
		if fok, fk, fd, _ := c13Judge(&fout, fres, fdoc, j.ds.pristine[m][di]); fok {
			c.Add("history_dependence_seen", 1)
			return
		} else {
			kind, detail = fk, fd
		}
	}
	c.Violate(run.Violation{
		Sig:    kind + ":" + gen.Shape(pc.p),
		Detail: fmt.Sprintf("%s on %s: %s", pc.r.Text, j.ds.text[di], detail),
		Size:   len(pc.r.Text)*100 + len(j.ds.text[di]),
		Case:   caseOfP("C13", pc.p, pc.r.Text, j.ds.text[di], m, "funcs+accessor"),
	})
}

// c13Docs: the standard documents plus every container shape of up to maxShape nodes with
// pairwise distinct leaves.
func c13Docs(tier string) *docSet {
	ds := newDocSet(stdDocSpec(tier), []int{modeFloat})
	maxShape := 5
	if tier == "thorough" {
		maxShape = 6
	}
	shapes := gen.Docs(gen.DocSpec{MaxNodes: maxShape, Keys: gen.KAB, Scalars: []interface{}{float64(0)}, MaxArr: 3})
	for _, s := range shapes {
		d := gen.Relabel(s)
		ds.text = append(ds.text, gen.JSON(d))
		ds.docs[modeFloat] = append(ds.docs[modeFloat], d)
		ds.pristine[modeFloat] = append(ds.pristine[modeFloat], gen.Clone(d))
	}
	return ds
}

func init() {
	run.Register(&run.Check{
		ID:    "C13",
		Level: "model_checking",
		Rule:  "every (path, document) whose result has at least one settable accessor, and within it every accessor index i; non-trivial = at least one Set was performed; each Set is followed by a structural diff against an untouched copy and a read of the model's location",
		Assumptions: []string{
			"between obtaining the accessors and using them an unrelated accessor-mode retrieval is performed (accessors must not be invalidated by later use of the library)",
			"location oracle = the reference model's (container, key|index) for the i-th result; the sentinel written is unique, so a write to any other location is visible in the diff even where leaves are equal",
		},
		Bounds: map[string]string{
			"quick":    "paths of <=2 steps over the 50-step alphabet (+7 trailing functions, for Set==nil) and 3 steps over the 16-step alphabet; documents: every JSON document of <=4 nodes plus every container shape of <=5 nodes with pairwise distinct leaves; every result index",
			"thorough": "paths of <=3 steps over the 50-step alphabet, 4 over 16, 5 over 8; documents of <=5 nodes plus every shape of <=6 nodes with distinct leaves; every result index",
		},
		New: func(tier string) run.Job {
			ls := stdLadders(tier)
			for i := range ls {
				ls[i].Modes = []int{modeFloat}
			}
			return &productJob{
				id:        "C13",
				units:     shallowQuick(tier, unitsOf(ls)),
				ds:        c13Docs(tier),
				env:       impl.NewEnv(),
				oracle:    c13Oracle,
				needAcc:   true,
				needModel: true,
				skipPlain: true,
			}
		},
		Replay: func(cs map[string]interface{}) (bool, string) {
			return replayProduct(cs, func(path string, p *gen.Path, doc interface{}, env *impl.Env) (bool, string) {
				pa := impl.Parse(path, &env.CfgAcc)
				if pa.F == nil || p == nil {
					return false, "does not parse"
				}
				pristine := gen.Clone(doc)
				out := spec.Eval(p, doc, env.Model)
				res := impl.Call(pa.F, doc)
				c13Interlude(env)
				ok, _, detail, _ := c13Judge(&out, res, doc, pristine)
				return !ok, detail
			})
		},
	})
}
