// Command vinstr generates, from the current working tree of the package under test, an
// instrumented copy and a `go build -overlay` file (DESIGN.md §2.4, Appendix C):
//
//   - import "sync" is redirected to the virtual package <module>/verifshim (sources: -shim dir)
//   - every range over a string-keyed map ranges over verifshim.Keys(m) instead
//   - verifshim.Point("<func>") is inserted at the entry of every named function
//   - zz_verif_globals.go is added: VerifGlobals() returns the address of every package-level var
//
// Nothing under the source directory is modified. The rewriter fails closed: exit status 3
// means "could not instrument", and the caller falls back to the plain build.
package main

import (
	"bytes"
	"encoding/json"
	"flag"
	"fmt"
	"go/ast"
	"go/format"
	"go/importer"
	"go/parser"
	"go/token"
	"go/types"
	"os"
	"path/filepath"
	"sort"
	"strings"
)

// headerOf returns a copy of a compound statement without its bodies (only the expressions
// evaluated by the statement itself remain).
func headerOf(st ast.Stmt) ast.Node {
	switch t := st.(type) {
	case *ast.IfStmt:
		return &ast.IfStmt{Init: t.Init, Cond: t.Cond, Body: &ast.BlockStmt{}}
	case *ast.ForStmt:
		return &ast.ForStmt{Init: t.Init, Cond: t.Cond, Post: t.Post, Body: &ast.BlockStmt{}}
	case *ast.SwitchStmt:
		return &ast.SwitchStmt{Init: t.Init, Tag: t.Tag, Body: &ast.BlockStmt{}}
	case *ast.TypeSwitchStmt:
		return &ast.TypeSwitchStmt{Init: t.Init, Assign: t.Assign, Body: &ast.BlockStmt{}}
	case *ast.RangeStmt:
		return &ast.ExprStmt{X: t.X}
	}
	return &ast.EmptyStmt{}
}

func die(code int, format string, args ...interface{}) {
	fmt.Fprintf(os.Stderr, "vinstr: "+format+"\n", args...)
	os.Exit(code)
}

func main() {
	src := flag.String("src", "/repo", "package directory")
	out := flag.String("out", "", "output directory")
	shim := flag.String("shim", "", "directory with the verifshim sources")
	mod := flag.String("module", "github.com/AsaiYusuke/jsonpath", "import path of the package")
	flag.Parse()
	if *out == "" || *shim == "" {
		die(2, "need -out and -shim")
	}
	shimPath := *mod + "/verifshim"
	fset := token.NewFileSet()
	pkgs, err := parser.ParseDir(fset, *src, func(fi os.FileInfo) bool { return !strings.HasSuffix(fi.Name(), "_test.go") }, parser.ParseComments)
	if err != nil {
		die(3, "parse: %v", err)
	}
	var pkg *ast.Package
	for name, p := range pkgs {
		if !strings.HasSuffix(name, "_test") {
			pkg = p
		}
	}
	if pkg == nil {
		die(3, "no package in %s", *src)
	}
	var names []string
	for n := range pkg.Files {
		names = append(names, n)
	}
	sort.Strings(names)
	var files []*ast.File
	for _, n := range names {
		files = append(files, pkg.Files[n])
	}

	// type information (to find ranges over maps); failure only disables that rewrite
	info := &types.Info{Types: map[ast.Expr]types.TypeAndValue{}}
	conf := types.Config{Importer: importer.ForCompiler(fset, "source", nil), Error: func(error) {}}
	_, typeErr := conf.Check(*mod, fset, files, info)

	report := map[string]interface{}{}
	var globals []string
	points, mapRanges, uncontrolledRanges, goStmts := 0, 0, 0, 0
	atomicPoints := 0
	syncFiles := 0

	os.MkdirAll(filepath.Join(*out, "src"), 0755)
	os.MkdirAll(filepath.Join(*out, "shim"), 0755)
	overlay := map[string]string{}

	for fi, f := range files {
		fname := names[fi]
		generated := strings.HasSuffix(fname, ".peg.go")
		needShim := false
		// 1. redirect sync
		for _, im := range f.Imports {
			if im.Path.Value == `"sync"` {
				im.Path.Value = fmt.Sprintf("%q", shimPath)
				if im.Name == nil {
					im.Name = ast.NewIdent("sync")
				}
				syncFiles++
			}
		}
		// collect package-level vars
		for _, d := range f.Decls {
			if gd, ok := d.(*ast.GenDecl); ok && gd.Tok == token.VAR {
				for _, s := range gd.Specs {
					for _, n := range s.(*ast.ValueSpec).Names {
						if n.Name != "_" {
							globals = append(globals, n.Name)
						}
					}
				}
			}
		}
		// 2. map ranges, go statements
		ast.Inspect(f, func(n ast.Node) bool {
			switch t := n.(type) {
			case *ast.GoStmt:
				goStmts++
			case *ast.RangeStmt:
				tv, ok := info.Types[t.X]
				if !ok || tv.Type == nil {
					return true
				}
				mt, isMap := tv.Type.Underlying().(*types.Map)
				if !isMap {
					return true
				}
				kb, isBasic := mt.Key().Underlying().(*types.Basic)
				if !isBasic || kb.Kind() != types.String || t.Key == nil {
					uncontrolledRanges++
					return true
				}
				keyIdent, isIdent := t.Key.(*ast.Ident)
				if !isIdent || t.Tok != token.DEFINE {
					uncontrolledRanges++
					return true
				}
				// for k[, v] := range m  =>  for _, k := range verifshim.Keys(m) { v := m[k]; ... }
				mapExpr := t.X
				t.X = &ast.CallExpr{Fun: &ast.SelectorExpr{X: ast.NewIdent("verifshim"), Sel: ast.NewIdent("Keys")}, Args: []ast.Expr{mapExpr}}
				if t.Value != nil {
					if vid, ok := t.Value.(*ast.Ident); ok && vid.Name != "_" {
						assign := &ast.AssignStmt{Lhs: []ast.Expr{ast.NewIdent(vid.Name)}, Tok: token.DEFINE,
							Rhs: []ast.Expr{&ast.IndexExpr{X: mapExpr, Index: ast.NewIdent(keyIdent.Name)}}}
						use := &ast.AssignStmt{Lhs: []ast.Expr{ast.NewIdent("_")}, Tok: token.ASSIGN, Rhs: []ast.Expr{ast.NewIdent(vid.Name)}}
						t.Body.List = append([]ast.Stmt{assign, use}, t.Body.List...)
					}
				}
				t.Value = ast.NewIdent(keyIdent.Name)
				t.Key = ast.NewIdent("_")
				if keyIdent.Name == "_" {
					t.Value = ast.NewIdent("_")
				}
				mapRanges++
				needShim = true
			}
			return true
		})
		// 3. scheduling points
		for _, d := range f.Decls {
			fd, ok := d.(*ast.FuncDecl)
			if !ok || fd.Body == nil {
				continue
			}
			if generated {
				switch fd.Name.Name {
				case "Parse", "Execute", "Init", "Reset":
				default:
					continue
				}
			}
			name := fd.Name.Name
			if fd.Recv != nil && len(fd.Recv.List) == 1 {
				var b bytes.Buffer
				format.Node(&b, fset, fd.Recv.List[0].Type)
				name = "(" + b.String() + ")." + name
			}
			call := &ast.ExprStmt{X: &ast.CallExpr{
				Fun:  &ast.SelectorExpr{X: ast.NewIdent("verifshim"), Sel: ast.NewIdent("Point")},
				Args: []ast.Expr{&ast.BasicLit{Kind: token.STRING, Value: fmt.Sprintf("%q", name)}},
			}}
			fd.Body.List = append([]ast.Stmt{call}, fd.Body.List...)
			points++
			needShim = true
		}
		// 4. a scheduling point before every statement that uses sync/atomic (the library uses none
		// today; a change that introduces a lock-free slot or flag must still be explorable)
		atomicAlias := ""
		for _, im := range f.Imports {
			if im.Path.Value == `"sync/atomic"` {
				atomicAlias = "atomic"
				if im.Name != nil {
					atomicAlias = im.Name.Name
				}
			}
		}
		usesAtomic := func(n ast.Node) bool {
			found := false
			ast.Inspect(n, func(x ast.Node) bool {
				switch t := x.(type) {
				case *ast.BlockStmt, *ast.FuncLit:
					return false // nested bodies are handled on their own
				case *ast.CallExpr:
					if se, ok := t.Fun.(*ast.SelectorExpr); ok {
						if id, ok := se.X.(*ast.Ident); ok && atomicAlias != "" && id.Name == atomicAlias {
							found = true
						}
						if tv, ok := info.Types[se.X]; ok && tv.Type != nil && strings.Contains(tv.Type.String(), "sync/atomic.") {
							found = true
						}
					}
				}
				return !found
			})
			return found
		}
		point := func() ast.Stmt {
			return &ast.ExprStmt{X: &ast.CallExpr{
				Fun:  &ast.SelectorExpr{X: ast.NewIdent("verifshim"), Sel: ast.NewIdent("Point")},
				Args: []ast.Expr{&ast.BasicLit{Kind: token.STRING, Value: `"atomic"`}},
			}}
		}
		var instrList func(list []ast.Stmt) []ast.Stmt
		instrList = func(list []ast.Stmt) []ast.Stmt {
			var out []ast.Stmt
			for _, st := range list {
				hit := false
				switch t := st.(type) {
				case *ast.BlockStmt:
					t.List = instrList(t.List)
				case *ast.IfStmt, *ast.ForStmt, *ast.SwitchStmt, *ast.TypeSwitchStmt, *ast.RangeStmt, *ast.SelectStmt, *ast.LabeledStmt:
					hit = usesAtomic(headerOf(st))
				default:
					hit = usesAtomic(st)
				}
				if hit {
					out = append(out, point())
					atomicPoints++
					needShim = true
				}
				out = append(out, st)
			}
			return out
		}
		ast.Inspect(f, func(n ast.Node) bool {
			switch t := n.(type) {
			case *ast.BlockStmt:
				t.List = instrList(t.List)
			case *ast.CaseClause:
				t.Body = instrList(t.Body)
			case *ast.CommClause:
				t.Body = instrList(t.Body)
			case *ast.ForStmt:
				// a loop whose header uses an atomic (spin loop): yield inside the body as well
				if t.Body != nil && usesAtomic(headerOf(t)) {
					t.Body.List = append([]ast.Stmt{point()}, t.Body.List...)
					atomicPoints++
					needShim = true
				}
			}
			return true
		})
		if needShim {
			spec := &ast.ImportSpec{Name: ast.NewIdent("verifshim"), Path: &ast.BasicLit{Kind: token.STRING, Value: fmt.Sprintf("%q", shimPath)}}
			gd := &ast.GenDecl{Tok: token.IMPORT, Specs: []ast.Spec{spec}}
			f.Decls = append([]ast.Decl{gd}, f.Decls...)
			f.Imports = append(f.Imports, spec)
		}
		var buf bytes.Buffer
		// comments are dropped on purpose: inserted nodes have no positions and the printer
		// would otherwise misplace free-floating comments
		f.Comments = nil
		if err := format.Node(&buf, fset, f); err != nil {
			die(3, "print %s: %v", fname, err)
		}
		dst := filepath.Join(*out, "src", filepath.Base(fname))
		if err := os.WriteFile(dst, buf.Bytes(), 0644); err != nil {
			die(3, "%v", err)
		}
		abs, _ := filepath.Abs(fname)
		overlay[abs] = dst
	}

	// 4. globals accessor
	sort.Strings(globals)
	var g bytes.Buffer
	fmt.Fprintf(&g, "package %s\n\n// VerifGlobals returns the address of every package-level variable (generated by vinstr).\nfunc VerifGlobals() map[string]interface{} {\n\treturn map[string]interface{}{\n", pkg.Name)
	for _, n := range globals {
		fmt.Fprintf(&g, "\t\t%q: &%s,\n", n, n)
	}
	fmt.Fprintf(&g, "\t}\n}\n")
	gdst := filepath.Join(*out, "src", "zz_verif_globals.go")
	os.WriteFile(gdst, g.Bytes(), 0644)
	absSrc, _ := filepath.Abs(*src)
	overlay[filepath.Join(absSrc, "zz_verif_globals.go")] = gdst

	// 5. shim package
	shimFiles, _ := filepath.Glob(filepath.Join(*shim, "*.go"))
	for _, sf := range shimFiles {
		if strings.HasSuffix(sf, "_test.go") {
			continue
		}
		b, err := os.ReadFile(sf)
		if err != nil {
			die(3, "%v", err)
		}
		dst := filepath.Join(*out, "shim", filepath.Base(sf))
		os.WriteFile(dst, b, 0644)
		overlay[filepath.Join(absSrc, "verifshim", filepath.Base(sf))] = dst
	}

	ob, _ := json.MarshalIndent(map[string]interface{}{"Replace": overlay}, "", " ")
	os.WriteFile(filepath.Join(*out, "overlay.json"), ob, 0644)

	report["files"] = len(files)
	report["sync_imports_redirected"] = syncFiles
	report["points_inserted"] = points
	report["map_ranges_controlled"] = mapRanges
	report["map_ranges_uncontrolled"] = uncontrolledRanges
	report["go_statements"] = goStmts
	report["atomic_points_inserted"] = atomicPoints
	report["globals"] = globals
	if typeErr != nil {
		report["typecheck_note"] = typeErr.Error()
	}
	rb, _ := json.MarshalIndent(report, "", " ")
	os.WriteFile(filepath.Join(*out, "report.json"), rb, 0644)
	fmt.Println(string(rb))
}
