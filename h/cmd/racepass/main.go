// Command racepass runs the C06 driver bodies free-running (real goroutines, real sync) so
// that the Go race detector can see unsynchronised accesses; build it with -race against the
// plain package. It is a happens-before detector on sampled schedules, not an exhaustive
// exploration: it complements the controlled-scheduler search, which is blind to accesses
// between scheduling points.
//
// usage: racepass <tier> [scenario-index | from:A[:B]]   (exit 66 = race reported by the runtime)
package main

import (
	"fmt"
	"github.com/AsaiYusuke/jsonpath"
	"os"
	"strconv"
	"sync"

	"verif/h/conc"
)

func runScenario(sc *conc.Scenario, copies, rounds int) (mismatch string) {
	expected := sc.Expected()
	for r := 0; r < rounds; r++ {
		w := sc.Build()
		// replicate every thread `copies` times; copies of a thread write to private outcome slots
		type slot struct {
			t   int
			out []string
		}
		var slots []*slot
		var wg sync.WaitGroup
		start := make(chan struct{})
		for c := 0; c < copies; c++ {
			for t := range sc.Threads {
				s := &slot{t: t, out: make([]string, len(sc.Threads[t]))}
				slots = append(slots, s)
				wg.Add(1)
				go func(s *slot) {
					defer wg.Done()
					<-start
					for k, op := range sc.Threads[s.t] {
						if op.Parse {
							s.out[k] = conc.ParseOutcome(op.Path, op.Cfg)
						} else {
							s.out[k] = conc.CallOutcome(w.Fns[op.Fn], w.Docs[op.Doc])
						}
					}
				}(s)
			}
		}
		close(start)
		wg.Wait()
		if sc.Fresh || sc.Late {
			expected = w.ExpectedAfter()
		}
		for _, s := range slots {
			for k := range s.out {
				if s.out[k] != expected[s.t][k] {
					return fmt.Sprintf("%s: thread %d op %d returned %s, run alone %s", sc.Name, s.t, k, s.out[k], expected[s.t][k])
				}
			}
		}
		copy(w.Outcomes, expected)
		for t := range w.Outcomes {
			w.Outcomes[t] = expected[t]
		}
		if ok, d := w.Check(expected); !ok {
			return sc.Name + ": " + d
		}
	}
	return ""
}

// sharedDocs: paths [a,b) of conc.SharedDocProduct, each evaluated by two goroutines at once on
// one document object, for every document.
func sharedDocs(tier, rng string) {
	paths, docs := conc.SharedDocProduct(tier)
	a, b := 0, len(paths)
	fmt.Sscanf(rng, "%d:%d", &a, &b)
	if b > len(paths) {
		b = len(paths)
	}
	n := 0
	for i := a; i < b; i++ {
		f1, err1 := jsonpath.Parse(paths[i], conc.Config(1)...)
		f2, err2 := jsonpath.Parse(paths[i], conc.Config(2)...)
		if err1 != nil || err2 != nil {
			continue
		}
		fmt.Printf("SHARED %d %s\n", i, paths[i])
		for _, dt := range docs {
			doc := conc.Decode(dt)
			var wg sync.WaitGroup
			start := make(chan struct{})
			for _, f := range []func(interface{}) ([]interface{}, error){f1, f2, f1} {
				wg.Add(1)
				go func(f func(interface{}) ([]interface{}, error)) {
					defer wg.Done()
					<-start
					conc.CallOutcome(f, doc)
				}(f)
			}
			close(start)
			wg.Wait()
			n += 3
		}
	}
	fmt.Printf("DONE scenarios=%d goroutines=%d\n", b-a, n)
}

func main() {
	tier := "quick"
	if len(os.Args) > 1 {
		tier = os.Args[1]
	}
	if len(os.Args) > 2 && len(os.Args[2]) > 7 && os.Args[2][:7] == "shared:" {
		sharedDocs(tier, os.Args[2][7:])
		return
	}
	scs := conc.Scenarios(tier)
	only, from, to := -1, 0, len(scs)
	if len(os.Args) > 2 {
		if len(os.Args[2]) > 5 && os.Args[2][:5] == "from:" {
			// from:A or from:A:B (B exclusive)
			fmt.Sscanf(os.Args[2][5:], "%d:%d", &from, &to)
		} else {
			only, _ = strconv.Atoi(os.Args[2])
		}
	}
	rounds := 6
	if tier == "thorough" {
		rounds = 40
	}
	n := 0
	for i := range scs {
		if (only >= 0 && i != only) || i < from || i >= to {
			continue
		}
		// tell the parent which scenario is running (a race report kills the process)
		fmt.Printf("SCENARIO %d %s\n", i, scs[i].Name)
		for _, copies := range []int{1, 2, 8} {
			if m := runScenario(&scs[i], copies, rounds); m != "" {
				fmt.Printf("MISMATCH %d %s\n", i, m)
				os.Exit(3)
			}
			n += copies * len(scs[i].Threads) * rounds
		}
	}
	fmt.Printf("DONE scenarios=%d goroutines=%d\n", len(scs), n)
}
