// Command vcheck is coordinator, worker and replayer in one binary. It links the library
// from /repo's working tree and is therefore rebuilt by ./check on every run.
package main

import (
	"fmt"
	"os"
	"strconv"

	_ "verif/h/checks"
	"verif/h/run"
)

func main() {
	if len(os.Args) < 2 {
		fmt.Fprintln(os.Stderr, "usage: vcheck <id> <quick|thorough> | replay <file> | list")
		os.Exit(2)
	}
	if f, ok := run.Commands[os.Args[1]]; ok {
		os.Exit(f(os.Args[2:]))
	}
	switch os.Args[1] {
	case "-worker":
		os.Exit(run.WorkerMain(os.Args[2:]))
	case "-replay1":
		os.Exit(run.ReplayMain(os.Args[2], 1))
	case "replay":
		n := 5
		if len(os.Args) > 3 {
			n, _ = strconv.Atoi(os.Args[3])
		}
		os.Exit(run.ReplayMain(os.Args[2], n))
	case "list":
		for _, id := range run.IDs() {
			fmt.Println(id)
		}
	default:
		tier := "quick"
		if len(os.Args) > 2 {
			tier = os.Args[2]
		}
		os.Exit(run.Main(os.Args[1], tier))
	}
}
