package pegi

import (
	"fmt"
	"go/ast"
	goparser "go/parser"
	"go/token"
	"math/rand"
	"os"
	"regexp"
	"sort"
	"strconv"
	"strings"
	"sync"
	"testing"
	"time"
	"unicode/utf8"

	"github.com/AsaiYusuke/jsonpath"
)

const (
	pegFile    = "/repo/jsonpath.peg"
	pegGoFile  = "/repo/jsonpath.peg.go"
	corpusFile = "/repo/test_jsonpath_test.go"
)

var (
	loadOnce sync.Once
	loaded   *Grammar
	loadErr  error
)

func grammar(t testing.TB) *Grammar {
	t.Helper()
	loadOnce.Do(func() {
		src, err := os.ReadFile(pegFile)
		if err != nil {
			loadErr = err
			return
		}
		loaded, loadErr = Load(string(src))
	})
	if loadErr != nil {
		t.Fatalf("Load: %v", loadErr)
	}
	return loaded
}

// generatedTables extracts the rul3s table and the rule comments of the
// generated parser.
func generatedTables(t testing.TB) (names []string, comments map[string]string, nActionConsts int) {
	t.Helper()
	b, err := os.ReadFile(pegGoFile)
	if err != nil {
		t.Fatal(err)
	}
	src := string(b)
	i := strings.Index(src, "var rul3s = [...]string{")
	if i < 0 {
		t.Fatal("rul3s table not found")
	}
	tbl := src[i:]
	tbl = tbl[:strings.Index(tbl, "\n}")]
	for _, m := range regexp.MustCompile(`(?m)^\s*"([^"]+)",$`).FindAllStringSubmatch(tbl, -1) {
		names = append(names, m[1])
	}
	comments = map[string]string{}
	for _, m := range regexp.MustCompile(`(?m)^\s*/\* \d+ (\w+) <- <(.*)> \*/$`).FindAllStringSubmatch(src, -1) {
		comments[m[1]] = m[2]
	}
	nActionConsts = len(regexp.MustCompile(`(?m)^\s*ruleAction\d+$`).FindAllString(src, -1))
	return
}

func TestLoadStructure(t *testing.T) {
	g := grammar(t)
	names, comments, nActionConsts := generatedTables(t)

	var genRules []string
	nActionNames := 0
	for _, n := range names {
		switch {
		case n == "Unknown" || n == "PegText":
		case regexp.MustCompile(`^Action\d+$`).MatchString(n):
			nActionNames++
		default:
			genRules = append(genRules, n)
		}
	}
	rules := g.Rules()
	if len(rules) != 59 || len(rules) != len(genRules) {
		t.Fatalf("parsed %d rules, generated parser has %d (want 59)", len(rules), len(genRules))
	}
	for i, r := range rules {
		if r.Name != genRules[i] {
			t.Errorf("rule %d: parsed %q, generated %q", i, r.Name, genRules[i])
		}
	}
	if g.Start() != "expression" {
		t.Errorf("Start() = %q", g.Start())
	}
	if g.NumActions() != 46 || nActionConsts != 46 || nActionNames != 46 {
		t.Errorf("actions: parsed %d, ruleActionN consts %d, rul3s entries %d (want 46)", g.NumActions(), nActionConsts, nActionNames)
	}

	// Action bodies must be the ones Execute() contains, in the same order.
	b, _ := os.ReadFile(pegGoFile)
	norm := func(s string) string { return strings.Join(strings.Fields(s), " ") }
	exec := string(b)
	exec = exec[strings.Index(exec, "func (p *pegJSONPathParser) Execute()"):]
	exec = exec[:strings.Index(exec, "\nfunc Pretty(")]
	for i := 0; i < g.NumActions(); i++ {
		_, code := g.ActionCode(i)
		start := strings.Index(exec, fmt.Sprintf("case ruleAction%d:\n", i))
		if start < 0 {
			t.Fatalf("case ruleAction%d not found", i)
		}
		rest := exec[start+len(fmt.Sprintf("case ruleAction%d:\n", i)):]
		end := strings.Index(rest, "\n\t\tcase ruleAction")
		if end < 0 {
			end = strings.Index(rest, "\n\t\t}\n\t}\n")
		}
		if norm(rest[:end]) != norm(code) {
			t.Errorf("Action%d code differs:\n grammar: %s\n generated: %s", i, norm(code), norm(rest[:end]))
		}
	}

	// Compare our normal form of every rule with peg's own comment, for the
	// rules that were not rewritten by the -switch optimisation.
	compared := 0
	for _, r := range rules {
		c, ok := comments[r.Name]
		if !ok {
			t.Errorf("no generated comment for rule %s", r.Name)
			continue
		}
		if strings.Contains(c, "(&(") {
			continue
		}
		compared++
		if c != r.Expr {
			t.Errorf("rule %s:\n  ours: %s\n  peg:  %s", r.Name, r.Expr, c)
		}
	}
	t.Logf("%d rules, %d actions; %d rule bodies identical to peg's normal form (%d skipped: -switch rewritten); memoised: %v",
		len(rules), g.NumActions(), compared, len(rules)-compared, g.Memoised())
	if compared < 45 {
		t.Errorf("only %d rule bodies compared", compared)
	}
}

// ---------------------------------------------------------------------------

var (
	corpusOnce sync.Once
	corpusBase []string
	corpusAll  []string
)

func corpus(t testing.TB) (base, all []string) {
	t.Helper()
	corpusOnce.Do(func() {
		fset := token.NewFileSet()
		f, err := goparser.ParseFile(fset, corpusFile, nil, 0)
		if err != nil {
			t.Fatal(err)
		}
		nLit := 0
		seen := map[string]bool{}
		ast.Inspect(f, func(n ast.Node) bool {
			kv, ok := n.(*ast.KeyValueExpr)
			if !ok {
				return true
			}
			id, ok := kv.Key.(*ast.Ident)
			if !ok || id.Name != "jsonpath" {
				return true
			}
			lit, ok := kv.Value.(*ast.BasicLit)
			if !ok || lit.Kind != token.STRING {
				return true
			}
			s, err := strconv.Unquote(lit.Value)
			if err != nil {
				t.Fatalf("unquote %s: %v", lit.Value, err)
			}
			nLit++
			if !seen[s] {
				seen[s] = true
				corpusBase = append(corpusBase, s)
			}
			return true
		})
		if nLit < 1000 {
			t.Fatalf("only %d jsonpath literals found", nLit)
		}
		corpusAll = append(corpusAll, corpusBase...)
		for _, s := range corpusBase {
			rs := []rune(s)
			for i := range rs {
				d := string(rs[:i]) + string(rs[i+1:])
				if !seen[d] {
					seen[d] = true
					corpusAll = append(corpusAll, d)
				}
			}
		}
		t.Logf("corpus: %d literals, %d distinct, %d with one-character deletions", nLit, len(corpusBase), len(corpusAll))
	})
	return corpusBase, corpusAll
}

var libPosRe = regexp.MustCompile(`^invalid syntax \(position=(\d+), `)

var libErrRe = regexp.MustCompile(`^invalid syntax \(position=(\d+), reason=unrecognized input, near=`)

// libParse calls the real library. It reports the error, and whether the error
// is "unrecognized input" together with its position.
func libParse(s string) (err error, unrecognized bool, pos int, panicked interface{}) {
	defer func() {
		if r := recover(); r != nil {
			panicked = r
		}
	}()
	_, err = jsonpath.Parse(s)
	if err != nil {
		if _, ok := err.(jsonpath.ErrorInvalidSyntax); ok {
			if m := libErrRe.FindStringSubmatch(err.Error()); m != nil {
				pos, _ = strconv.Atoi(m[1])
				unrecognized = true
			}
		}
	}
	return
}

func isASCII(s string) bool {
	for i := 0; i < len(s); i++ {
		if s[i] >= utf8.RuneSelf {
			return false
		}
	}
	return true
}

type diffStats struct {
	total, skippedCompare, libOK, libUnrecognized, libOtherErr, catchAll, nonASCII int
}

// diffOne compares the interpreter with the library on one string and returns
// a description of the disagreement ("" if none).
func diffOne(g *Grammar, catchAllAction int, s string, st *diffStats) string {
	st.total++
	res := g.Parse(s)
	if !res.Matched {
		return "interpreter: start rule did not match"
	}
	if string(res.Runes) != string([]rune(s)) {
		return "Runes differ from []rune(input)"
	}
	hasCatchAll, lastIsCatchAll := false, false
	for i, e := range res.Events {
		if strings.Contains(e.Code, "pushCompareLT") || strings.Contains(e.Code, "pushCompareLE") ||
			strings.Contains(e.Code, "pushCompareGT") || strings.Contains(e.Code, "pushCompareGE") {
			// the library crashes the process (unrecoverable stack
			// overflow) on some of these; never hand them to it
			st.skippedCompare++
			return ""
		}
		if e.Action == catchAllAction {
			hasCatchAll = true
			lastIsCatchAll = i == len(res.Events)-1
		}
		if e.Begin < 0 || e.End < e.Begin || e.End > len(res.Runes) || e.Text != string(res.Runes[e.Begin:e.End]) {
			return fmt.Sprintf("event %d has inconsistent capture %d..%d %q", i, e.Begin, e.End, e.Text)
		}
	}
	if hasCatchAll {
		st.catchAll++
		if !lastIsCatchAll {
			return "catch-all action is not the last event"
		}
	}
	if len(res.Events) == 0 {
		return "no events at all"
	}
	ascii := isASCII(s)
	if !ascii {
		st.nonASCII++
	}

	err, unrecognized, pos, panicked := libParse(s)
	if panicked != nil {
		return fmt.Sprintf("library panicked: %v", panicked)
	}
	switch {
	case err == nil:
		st.libOK++
	case unrecognized:
		st.libUnrecognized++
	default:
		st.libOtherErr++
	}
	last := res.Events[len(res.Events)-1]
	if unrecognized {
		if !lastIsCatchAll {
			return fmt.Sprintf("library: %v; interpreter's last event is Action%d (%s), not the catch-all", err, last.Action, last.Rule)
		}
		// positions are rune offsets on both sides; the library only gets
		// `near` wrong for non-ASCII input, but stay with ASCII as agreed
		if ascii && last.Begin != pos {
			return fmt.Sprintf("library: %v; interpreter's catch-all capture begins at %d", err, last.Begin)
		}
		if ascii && last.End != len(res.Runes) {
			return fmt.Sprintf("catch-all capture ends at %d, input has %d runes", last.End, len(res.Runes))
		}
	}
	if ise, ok := err.(jsonpath.ErrorInvalidSyntax); ok && ascii {
		// whatever the reason, the reported position is the `begin` some
		// syntaxErr-raising action saw
		if m := libPosRe.FindStringSubmatch(ise.Error()); m != nil {
			p, _ := strconv.Atoi(m[1])
			found := false
			for _, e := range res.Events {
				if e.Begin == p && strings.Contains(e.Code, "p.syntaxErr(") {
					found = true
				}
			}
			if !found {
				return fmt.Sprintf("library: %v; no syntaxErr-raising event has Begin == %d", err, p)
			}
		}
	}
	if !hasCatchAll && unrecognized {
		return fmt.Sprintf("interpreter has no catch-all action but library says: %v", err)
	}
	if hasCatchAll && err == nil {
		return "interpreter ends in the catch-all action but the library accepted the input"
	}
	return ""
}

func catchAllIndex(t testing.TB, g *Grammar) int {
	idx := -1
	for i := 0; i < g.NumActions(); i++ {
		if _, code := g.ActionCode(i); strings.Contains(code, "msgErrorInvalidSyntaxUnrecognizedInput") {
			if idx >= 0 {
				t.Fatal("more than one catch-all action")
			}
			idx = i
		}
	}
	if idx < 0 {
		t.Fatal("catch-all action not found")
	}
	return idx
}

func TestDifferentialCorpus(t *testing.T) {
	g := grammar(t)
	_, all := corpus(t)
	ca := catchAllIndex(t, g)
	var st diffStats
	bad := 0
	for _, s := range all {
		if msg := diffOne(g, ca, s, &st); msg != "" {
			bad++
			if bad <= 25 {
				t.Errorf("%q: %s", s, msg)
			}
		}
	}
	t.Logf("%+v; disagreements: %d", st, bad)
	if st.libUnrecognized < 1000 || st.libOK < 1000 {
		t.Errorf("corpus does not exercise both outcomes: %+v", st)
	}
}

// TestDifferentialRandom feeds random strings over a JSONPath-ish alphabet to
// both implementations.
func TestDifferentialRandom(t *testing.T) {
	g := grammar(t)
	ca := catchAllIndex(t, g)
	rng := rand.New(rand.NewSource(20260926))
	frags := []string{"$", "@", ".", "..", "*", "[", "]", "(", ")", "?(", "'", "\"", "\\", ",", ":", " ", "-", "+",
		"0", "1", "23", "a", "b", "ab", "_", "==", "!=", "=~", "/", "&&", "||", "!", "true", "FALSE", "null", "u00e9",
		"length()", ".f()", "é", "\x01", "\x7f", "\xff", "e", "E", "1.5", "{", "}", "~", "`", "^", "#", "%", "&", "|", "=", ";"}
	var st diffStats
	bad := 0
	n := 60000
	if testing.Short() {
		n = 5000
	}
	base, _ := corpus(t)
	frag := func() string { return frags[rng.Intn(len(frags))] }
	for i := 0; i < n; i++ {
		var s string
		if i%3 == 0 {
			// pure noise
			var sb strings.Builder
			for k := rng.Intn(14); k >= 0; k-- {
				sb.WriteString(frag())
			}
			s = sb.String()
		} else {
			// a corpus string with a few random edits
			rs := []rune(base[rng.Intn(len(base))])
			for k := 1 + rng.Intn(4)/3; k > 0; k-- {
				at := rng.Intn(len(rs) + 1)
				switch rng.Intn(5) {
				case 0: // insert a fragment
					rs = append(rs[:at:at], append([]rune(frag()), rs[at:]...)...)
				case 1: // replace one rune by a fragment
					if at < len(rs) {
						rs = append(rs[:at:at], append([]rune(frag()), rs[at+1:]...)...)
					}
				case 2: // duplicate a slice
					to := at + rng.Intn(len(rs)-at+1)
					rs = append(rs[:to:to], append(append([]rune(nil), rs[at:to]...), rs[to:]...)...)
				case 3: // splice in the tail of another corpus string
					o := []rune(base[rng.Intn(len(base))])
					rs = append(rs[:at:at], o[rng.Intn(len(o)+1):]...)
				case 4: // wrap in a filter
					rs = []rune("$[?(" + strings.Replace(string(rs), "$", "@", 1) + frag() + "1)]")
				}
			}
			if len(rs) > 300 {
				rs = rs[:300]
			}
			s = string(rs)
		}
		if msg := diffOne(g, ca, s, &st); msg != "" {
			bad++
			if bad <= 25 {
				t.Errorf("%q: %s", s, msg)
			}
		}
	}
	t.Logf("%+v; disagreements: %d", st, bad)
}

// ---------------------------------------------------------------------------

func TestEventOrderAndCaptures(t *testing.T) {
	g := grammar(t)
	show := func(s string) string {
		var parts []string
		for _, e := range g.Parse(s).Events {
			parts = append(parts, fmt.Sprintf("%d:%s[%d,%d]%q", e.Action, e.Rule, e.Begin, e.End, e.Text))
		}
		return strings.Join(parts, " ")
	}
	cases := map[string]string{
		// rootIdentifier(8) '.a'(10, then 4 with the enclosing capture) continued(2) expression(0)
		`$.a`: `8:rootIdentifier[0,0]"" 10:dotChildIdentifier[2,3]"a" 4:childNode[1,3]".a" 2:continuedJsonpath[1,3]".a" 0:expression[1,3]".a"`,
		// failed first alternative leaves nothing behind; `jsonpath?` partial match survives in the 2nd alternative
		`$x`: `8:rootIdentifier[0,0]"" 2:continuedJsonpath[0,0]"" 1:expression[1,2]"x"`,
		``:   `1:expression[0,0]""`,
		`@`:  `1:expression[0,1]"@"`,
		// actions inside the !sep predicate (none here) and the anyIndex attempts made by `slice` must not survive
		`$[1]`: `8:rootIdentifier[0,0]"" 17:index[2,3]"1" 19:index[2,3]"1" 7:bracketNode[1,4]"[1]" 2:continuedJsonpath[1,4]"[1]" 0:expression[1,4]"[1]"`,
		"\xff": `10:dotChildIdentifier[0,1]"\ufffd" 2:continuedJsonpath[0,1]"\ufffd" 0:expression[0,1]"\ufffd"`,
	}
	for in, want := range cases {
		want = strings.ReplaceAll(want, `\ufffd`, "\ufffd")
		if got := show(in); got != want {
			t.Errorf("%q:\n got  %s\n want %s", in, got, want)
		}
	}

	// Full token list for a tiny input, checked by hand against the generated code.
	toks, ok := g.ParseTokens(`$`)
	var parts []string
	for _, tk := range toks {
		parts = append(parts, fmt.Sprintf("%s[%d,%d]", tk.Name, tk.Begin, tk.End))
	}
	want := "space[0,0] Action8[1,1] rootIdentifier[0,1] rootNode[0,1] space[1,1] Action2[1,1] continuedJsonpath[1,1] jsonpath[0,1] END[1,1] Action0[1,1] expression[0,1]"
	if got := strings.Join(parts, " "); !ok || got != want {
		t.Errorf("tokens for `$`:\n got  %s\n want %s", got, want)
	}
}

func TestNoPanicOnArbitraryInput(t *testing.T) {
	g := grammar(t)
	inputs := []string{"", "\x00", "\xff\xfe", "\xf0\x9f", "$[\xff]", "$['\xc3']", string([]rune{0x10FFFF}), strings.Repeat("[", 300),
		strings.Repeat("$[?(", 75), strings.Repeat("(", 300), strings.Repeat(" ", 300), strings.Repeat("'", 299)}
	rng := rand.New(rand.NewSource(1))
	for i := 0; i < 3000; i++ {
		b := make([]byte, rng.Intn(40))
		for j := range b {
			b[j] = byte(rng.Intn(256))
		}
		inputs = append(inputs, string(b))
	}
	for _, s := range inputs {
		res := g.Parse(s)
		if !res.Matched {
			t.Errorf("%q did not match", s)
		}
		if len(res.Runes) != utf8.RuneCountInString(s) {
			t.Errorf("%q: %d runes, want %d", s, len(res.Runes), utf8.RuneCountInString(s))
		}
	}
}

func TestDeepNesting(t *testing.T) {
	g := grammar(t)
	ca := catchAllIndex(t, g)
	nestParens := func(d int, tail string) string {
		return "$[?(" + strings.Repeat("(", d) + "@.a" + strings.Repeat(")", d) + tail
	}
	nestFilters := func(d int, tail string) string {
		return "$" + strings.Repeat("[?(@", d) + ".a" + strings.Repeat(")]", d) + tail
	}
	nestCompare := func(d int, tail string) string {
		return "$" + strings.Repeat("[?(@", d) + ".a==1" + strings.Repeat(")]", d) + tail
	}
	cases := []struct {
		in   string
		good bool
	}{
		{"$[?((((((((((@.a))))))))))]", true},
		{nestParens(60, ")]"), true},
		{nestParens(60, ")"), false},
		{nestParens(60, "]"), false},
		{nestParens(140, ")]"), true},
		{nestFilters(40, ""), true},
		{nestFilters(40, "x y"), false},
		{nestFilters(48, ")"), false},
		{nestCompare(40, ""), true},
		{nestCompare(40, "]"), false},
		{"$" + strings.Repeat("[?(@", 70), false},
		{"$[?(" + strings.Repeat("!@.a&&", 40) + "@.b)]", true},
	}
	for _, c := range cases {
		if n := utf8.RuneCountInString(c.in); n > 300 {
			t.Fatalf("test input too long: %d", n)
		}
		start := time.Now()
		res := g.Parse(c.in)
		el := time.Since(start)
		if el > 500*time.Millisecond {
			t.Errorf("%.40q... took %v", c.in, el)
		}
		if !res.Matched {
			t.Errorf("%q did not match", c.in)
			continue
		}
		good := res.Events[len(res.Events)-1].Action != ca
		if good != c.good {
			t.Errorf("%q: accepted=%v, want %v", c.in, good, c.good)
		}
		var st diffStats
		if msg := diffOne(g, ca, c.in, &st); msg != "" {
			t.Errorf("%q: %s", c.in, msg)
		}
	}
}

// TestMemoisationIsTransparent checks that the token list does not depend on
// which rules are memoised: none, the default selection, or all of them (as
// in the generated parser).
func TestMemoisationIsTransparent(t *testing.T) {
	src, err := os.ReadFile(pegFile)
	if err != nil {
		t.Fatal(err)
	}
	g := grammar(t)
	none, _ := Load(string(src))
	every, _ := Load(string(src))
	for i := range none.rules {
		none.rules[i].memo = -1
		every.rules[i].memo = int32(i)
	}
	none.nMemo, every.nMemo = 0, len(every.rules)
	_, all := corpus(t)
	all = append(append([]string(nil), all...),
		"$"+strings.Repeat("[?(@", 9)+".a==1"+strings.Repeat(")]", 9),
		"$"+strings.Repeat("[?(@", 9)+".a==1"+strings.Repeat(")]", 8))
	for _, s := range all {
		a, okA := g.ParseTokens(s)
		b, okB := none.ParseTokens(s)
		c, okC := every.ParseTokens(s)
		if okA != okB || okA != okC || fmt.Sprint(a) != fmt.Sprint(b) || fmt.Sprint(a) != fmt.Sprint(c) {
			t.Fatalf("%q: token lists differ between memoisation modes", s)
		}
	}
}

func TestLoadErrors(t *testing.T) {
	hdr := "package x\ntype P Peg {}\n"
	bad := map[string]string{
		"no header":        "a <- 'b'",
		"undefined rule":   hdr + "a <- b",
		"left recursion":   hdr + "a <- b 'x'\nb <- c? a",
		"unterminated":     hdr + "a <- 'b",
		"bad class":        hdr + "a <- [abc",
		"sem predicate":    hdr + "a <- &{ true } 'b'",
		"duplicate":        hdr + "a <- 'b'\na <- 'c'",
		"open brace":       hdr + "a <- 'b' { foo(",
		"unbalanced paren": hdr + "a <- ( 'b'",
		"no rules":         hdr,
	}
	for name, src := range bad {
		if _, err := Load(src); err == nil {
			t.Errorf("%s: Load succeeded", name)
		}
	}
}

func TestMiniGrammarFeatures(t *testing.T) {
	src := `package x
import "fmt"
type P Peg { a int }
# comment
start <- < item > (',' item { list("}", '}', ` + "`}`" + `) /* } */ })* !. { done() } // tail
       / &{{}} . # never reached: parsed? no
`
	if _, err := Load(src); err == nil {
		t.Fatal("semantic predicate must be rejected")
	}
	src = `package x
import "fmt"
type P Peg { a int }
# comment
start <- < item > (',' < item > { list("}", '}', ` + "`}`" + `) /* } */ // }
  })* !. { done() } // tail
item  <- "ab" [[x-z]] '\0x41' '\101' [\]\-\\] &'q'? / !'z' [^a-c\n] { neg() } /
`
	g, err := Load(src)
	if err != nil {
		t.Fatal(err)
	}
	if g.NumActions() != 3 {
		t.Fatalf("%d actions", g.NumActions())
	}
	if _, code := g.ActionCode(0); !strings.Contains(code, "/* } */ // }") {
		t.Errorf("action 0 code = %q", code)
	}
	type want struct {
		in     string
		events string
	}
	for _, w := range []want{
		{"aBYAA-", `1[0,6]"aBYAA-"`},
		{"ABxAA],d", `2[0,6]"ABxAA]" 0[7,8]"d" 1[7,8]"d"`},
		{"", `1[0,0]""`}, // item's last alternative is empty
		{"z", ``},        // !'z' fails, empty alt matches, !. fails
		{"a", ``},        // [^a-c\n] refuses 'a'
		{"d,\n", ``},     // ... and newline
		// an action inside a capture runs before that capture's token: it sees the previous capture
		{"é,é", `2[0,0]"" 2[0,1]"é" 0[2,3]"é" 1[2,3]"é"`},
	} {
		res := g.Parse(w.in)
		var parts []string
		for _, e := range res.Events {
			parts = append(parts, fmt.Sprintf("%d[%d,%d]%q", e.Action, e.Begin, e.End, e.Text))
		}
		got := strings.Join(parts, " ")
		if got != w.events || res.Matched != (w.events != "") {
			t.Errorf("%q: matched=%v events=%s, want %s", w.in, res.Matched, got, w.events)
		}
	}
}

// ---------------------------------------------------------------------------

func throughput(g *Grammar, all []string) (perSec float64, events int) {
	start := time.Now()
	for _, s := range all {
		events += len(g.Parse(s).Events)
	}
	return float64(len(all)) / time.Since(start).Seconds(), events
}

func TestThroughput(t *testing.T) {
	g := grammar(t)
	_, all := corpus(t)
	best := 0.0
	events := 0
	for i := 0; i < 5; i++ {
		r, ev := throughput(g, all)
		events = ev
		if r > best {
			best = r
		}
	}
	lens := make([]int, len(all))
	sum := 0
	for i, s := range all {
		lens[i] = len(s)
		sum += len(s)
	}
	sort.Ints(lens)
	t.Logf("throughput: %.0f strings/s single-threaded (best of 5) on %d strings (mean %d bytes, max %d), %d events per pass",
		best, len(all), sum/len(all), lens[len(lens)-1], events)
	if best < 50000 && !testing.Short() {
		t.Errorf("throughput %.0f strings/s is below the 50k/s target", best)
	}
}

func BenchmarkParseCorpus(b *testing.B) {
	g := grammar(b)
	_, all := corpus(b)
	b.ReportAllocs()
	b.ResetTimer()
	for i := 0; i < b.N; i++ {
		g.Parse(all[i%len(all)])
	}
}
