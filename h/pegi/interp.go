package pegi

import "strconv"

// Event is one surviving semantic action, in the order the generated
// Execute() would run it.
type Event struct {
	Action     int    // 0-based index of the action in textual order (N of ruleActionN)
	Rule       string // rule whose body textually contains the action
	Begin, End int    // rune offsets of the most recent <capture> token before this action (0,0 if none)
	Text       string // string(runes[Begin:End])
	Code       string // Go source between the action's braces, verbatim
}

// Result is the outcome of Grammar.Parse.
type Result struct {
	Matched bool    // whether the start rule matched
	Events  []Event // surviving actions in Execute() order (nil when !Matched)
	Runes   []rune  // the input as runes (without the end symbol)
}

// Token is one entry of the token list a generated parser would hold after
// Parse(): rule completions, captures ("PegText") and actions ("ActionN"),
// in completion order.
type Token struct {
	Name       string
	Begin, End int
}

const kindPegText int32 = -1

// tok.kind: >= 0 action index; -1 PegText; <= -2 rule (-2 - ruleIndex).
type tok struct {
	kind       int32
	begin, end int32
}

type memoEnt struct {
	gen    uint32
	ok     bool
	end    int32
	t0, t1 int32 // token sub-list in parser.arena
}

type parser struct {
	g      *Grammar
	buf    []rune
	pos    int
	toks   []tok
	arena  []tok
	memo   []memoEnt
	stride int
	gen    uint32
	full   bool // also record rule tokens
}

func (p *parser) reset(input string, full bool) {
	// One allocation: the rune buffer is handed out in Result.Runes.
	buf := make([]rune, 0, len(input)+1)
	for _, r := range input {
		buf = append(buf, r)
	}
	buf = append(buf, endSymbol)
	p.buf = buf
	p.pos = 0
	p.toks = p.toks[:0]
	p.arena = p.arena[:0]
	p.full = full
	p.stride = len(buf)
	need := p.g.nMemo * p.stride
	if need > len(p.memo) {
		p.memo = make([]memoEnt, need+need/2)
		p.gen = 0
	}
	p.gen++
	if p.gen == 0 { // wrapped around: invalidate everything
		for i := range p.memo {
			p.memo[i] = memoEnt{}
		}
		p.gen = 1
	}
}

func (p *parser) callRule(i int32) bool {
	r := &p.g.rules[i]
	var m *memoEnt
	if r.memo >= 0 {
		m = &p.memo[int(r.memo)*p.stride+p.pos]
		if m.gen == p.gen {
			if !m.ok {
				return false
			}
			p.toks = append(p.toks, p.arena[m.t0:m.t1]...)
			p.pos = int(m.end)
			return true
		}
	}
	begin, t0 := p.pos, len(p.toks)
	if !p.eval(r.body) {
		if m != nil {
			m.gen, m.ok = p.gen, false
		}
		return false
	}
	if p.full {
		p.toks = append(p.toks, tok{-2 - i, int32(begin), int32(p.pos)})
	}
	if m != nil {
		a0 := len(p.arena)
		p.arena = append(p.arena, p.toks[t0:]...)
		*m = memoEnt{gen: p.gen, ok: true, end: int32(p.pos), t0: int32(a0), t1: int32(len(p.arena))}
	}
	return true
}

// eval matches n at p.pos. On failure the position and the token list are
// left exactly as they were on entry (this is where the generated code
// restores `position, tokenIndex`).
func (p *parser) eval(n *node) bool {
	switch n.op {
	case opChar:
		if p.buf[p.pos] == n.r {
			p.pos++
			return true
		}
		return false
	case opClass:
		if n.cls.match(p.buf[p.pos]) {
			p.pos++
			return true
		}
		return false
	case opDot:
		if p.buf[p.pos] != endSymbol {
			p.pos++
			return true
		}
		return false
	case opRule:
		return p.callRule(n.idx)
	case opSeq:
		pos0, tok0 := p.pos, len(p.toks)
		for _, k := range n.kids {
			if !p.eval(k) {
				p.pos, p.toks = pos0, p.toks[:tok0]
				return false
			}
		}
		return true
	case opAlt:
		for _, k := range n.kids {
			if p.eval(k) {
				return true
			}
		}
		return false
	case opStar:
		k := n.kids[0]
		for {
			pos0 := p.pos
			if !p.eval(k) || p.pos == pos0 {
				// (a generated parser would loop forever on an iteration
				// that succeeds without consuming; we stop instead)
				return true
			}
		}
	case opPlus:
		k := n.kids[0]
		if !p.eval(k) {
			return false
		}
		for {
			pos0 := p.pos
			if !p.eval(k) || p.pos == pos0 {
				return true
			}
		}
	case opOpt:
		p.eval(n.kids[0])
		return true
	case opNot, opAnd:
		pos0, tok0 := p.pos, len(p.toks)
		ok := p.eval(n.kids[0])
		// position and tokens are restored after a predicate whatever its
		// outcome, so actions and captures inside predicates never survive
		p.pos, p.toks = pos0, p.toks[:tok0]
		return ok == (n.op == opAnd)
	case opCapture:
		begin := p.pos
		if !p.eval(n.kids[0]) {
			return false
		}
		p.toks = append(p.toks, tok{kindPegText, int32(begin), int32(p.pos)})
		return true
	case opAction:
		p.toks = append(p.toks, tok{n.idx, int32(p.pos), int32(p.pos)})
		return true
	}
	return false
}

func (g *Grammar) run(input string, full bool) (*parser, bool) {
	p := g.pool.Get().(*parser)
	p.reset(input, full)
	ok := p.callRule(0)
	if !ok {
		p.toks = p.toks[:0]
	}
	return p, ok
}

// Parse runs the start rule on input.
func (g *Grammar) Parse(input string) Result {
	p, ok := g.run(input, false)
	runes := p.buf[: len(p.buf)-1 : len(p.buf)-1]
	res := Result{Matched: ok, Runes: runes}
	if ok {
		n := 0
		for _, t := range p.toks {
			if t.kind >= 0 {
				n++
			}
		}
		if n > 0 {
			res.Events = make([]Event, 0, n)
			begin, end, text, fresh := 0, 0, "", true
			for _, t := range p.toks {
				if t.kind == kindPegText {
					if int(t.begin) != begin || int(t.end) != end {
						begin, end, fresh = int(t.begin), int(t.end), false
					}
					continue
				}
				if !fresh {
					text, fresh = string(runes[begin:end]), true
				}
				a := &g.actions[t.kind]
				res.Events = append(res.Events, Event{
					Action: int(t.kind), Rule: a.rule,
					Begin: begin, End: end, Text: text, Code: a.code,
				})
			}
		}
	}
	p.buf = nil
	g.pool.Put(p)
	return res
}

// ParseTokens runs the start rule on input and returns the complete token
// list (rule, PegText and Action tokens) that a generated parser would hold
// after a successful Parse().
func (g *Grammar) ParseTokens(input string) ([]Token, bool) {
	p, ok := g.run(input, true)
	var out []Token
	if ok {
		out = make([]Token, len(p.toks))
		for i, t := range p.toks {
			var name string
			switch {
			case t.kind == kindPegText:
				name = "PegText"
			case t.kind >= 0:
				name = "Action" + strconv.Itoa(int(t.kind))
			default:
				name = g.rules[-2-t.kind].name
			}
			out[i] = Token{Name: name, Begin: int(t.begin), End: int(t.end)}
		}
	}
	p.buf = nil
	g.pool.Put(p)
	return out, ok
}
