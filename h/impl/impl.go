// Package impl adapts the library under test: it calls the real Parse / parsed functions
// under recover and classifies outcomes.
package impl

import (
	"encoding/json"
	"errors"
	"fmt"
	"reflect"

	"github.com/AsaiYusuke/jsonpath"

	"verif/h/spec"
)

// Func is a parsed path function.
type Func func(interface{}) ([]interface{}, error)

// ErrType names the dynamic type of a library error ("" for nil).
func ErrType(err error) string {
	switch err.(type) {
	case nil:
		return ""
	case jsonpath.ErrorInvalidSyntax:
		return "ErrorInvalidSyntax"
	case jsonpath.ErrorInvalidArgument:
		return "ErrorInvalidArgument"
	case jsonpath.ErrorFunctionNotFound:
		return "ErrorFunctionNotFound"
	case jsonpath.ErrorNotSupported:
		return "ErrorNotSupported"
	case jsonpath.ErrorMemberNotExist:
		return "ErrorMemberNotExist"
	case jsonpath.ErrorTypeUnmatched:
		return "ErrorTypeUnmatched"
	case jsonpath.ErrorFunctionFailed:
		return "ErrorFunctionFailed"
	}
	return fmt.Sprintf("other:%T", err)
}

// IsSyntaxErrType reports whether t is one of the four documented Parse error types.
func IsSyntaxErrType(t string) bool {
	switch t {
	case "ErrorInvalidSyntax", "ErrorInvalidArgument", "ErrorFunctionNotFound", "ErrorNotSupported":
		return true
	}
	return false
}

// IsRuntimeErrType reports whether t is one of the three documented runtime error types.
func IsRuntimeErrType(t string) bool {
	switch t {
	case "ErrorMemberNotExist", "ErrorTypeUnmatched", "ErrorFunctionFailed":
		return true
	}
	return false
}

// ParseResult is the classified outcome of Parse.
type ParseResult struct {
	F       Func
	Err     error
	ErrType string
	ErrMsg  string
	Panic   string
}

// Parse calls jsonpath.Parse under recover.
func Parse(path string, cfg *jsonpath.Config) (r ParseResult) {
	defer func() {
		if e := recover(); e != nil {
			r.Panic = fmt.Sprint(e)
		}
	}()
	var f func(interface{}) ([]interface{}, error)
	var err error
	if cfg != nil {
		f, err = jsonpath.Parse(path, *cfg)
	} else {
		f, err = jsonpath.Parse(path)
	}
	r.F, r.Err = f, err
	r.ErrType = ErrType(err)
	if err != nil {
		r.ErrMsg = safeErrMsg(err)
	}
	return
}

// ParseN is Parse with any number of Config arguments (the exported signature is variadic).
func ParseN(path string, cfgs ...jsonpath.Config) (r ParseResult) {
	defer func() {
		if e := recover(); e != nil {
			r.Panic = fmt.Sprint(e)
		}
	}()
	f, err := jsonpath.Parse(path, cfgs...)
	r.F, r.Err = f, err
	r.ErrType = ErrType(err)
	if err != nil {
		r.ErrMsg = safeErrMsg(err)
	}
	return
}

func safeErrMsg(err error) (s string) {
	defer func() {
		if e := recover(); e != nil {
			s = "<Error() panicked: " + fmt.Sprint(e) + ">"
		}
	}()
	return err.Error()
}

// CallResult is the classified outcome of one call of a parsed function.
type CallResult struct {
	Values  []interface{}
	NilVals bool // Values == nil
	ErrType string
	ErrMsg  string
	Panic   string
}

// Call calls a parsed function under recover.
func Call(f Func, doc interface{}) (r CallResult) {
	defer func() {
		if e := recover(); e != nil {
			r.Panic = fmt.Sprint(e)
		}
	}()
	vs, err := f(doc)
	r.Values = vs
	r.NilVals = vs == nil
	r.ErrType = ErrType(err)
	if err != nil {
		r.ErrMsg = safeErrMsg(err)
	}
	return
}

// Key is a compact description for outcome histograms.
func (r CallResult) Key() string {
	switch {
	case r.Panic != "":
		return "panic"
	case r.ErrType != "":
		return r.ErrType
	}
	return fmt.Sprintf("ok/%d", min(len(r.Values), 5))
}

// ---------------------------------------------------------------------------
// Standard function environment used by the enumerations.

var errNotNumber = errors.New("not a number")
var errBoom = errors.New("boom")

func fDouble(v interface{}) (interface{}, error) {
	switch t := v.(type) {
	case float64:
		return t * 2, nil
	case json.Number:
		f, _ := t.Float64()
		return f * 2, nil
	}
	return nil, errNotNumber
}
func fID(v interface{}) (interface{}, error)  { return v, nil }
func fErr(v interface{}) (interface{}, error) { return nil, errBoom }

// fInnerErr returns, as it is, the runtime error of an inner retrieval that fails (an error
// value of one of the library's own exported types).
func fInnerErr(v interface{}) (interface{}, error) {
	_, err := jsonpath.Retrieve(`$.zz.yy`, map[string]interface{}{"zz": 1.0})
	return nil, err
}

// fAccessor returns an Accessor value of its own (what a function gets from a nested
// accessor-mode retrieval): to the library this is an opaque value like any other.
func fAccessor(v interface{}) (interface{}, error) {
	return jsonpath.Accessor{Get: func() interface{} { return v }, Set: func(interface{}) {}}, nil
}

// fNil returns nil (a JSON null) for every argument; fBox wraps its argument in a new array.
func fNil(v interface{}) (interface{}, error) { return nil, nil }
func fBox(v interface{}) (interface{}, error) { return []interface{}{v}, nil }
func gList(vs []interface{}) (interface{}, error) {
	return append([]interface{}{}, vs...), nil
}
// gAll returns the list it was given, as it is (a "collect" aggregate).
func gAll(vs []interface{}) (interface{}, error) { return vs, nil }
func gCnt(vs []interface{}) (interface{}, error) { return float64(len(vs)), nil }
func gErr(vs []interface{}) (interface{}, error) { return nil, errBoom }
func gFirst(vs []interface{}) (interface{}, error) {
	if len(vs) == 0 {
		return nil, errBoom
	}
	return vs[0], nil
}

// re-entrant functions: a user function may itself use the library while it runs
var reDoc = map[string]interface{}{"k": []interface{}{100.0, 200.0, 300.0}, "m": map[string]interface{}{"x": 1.0, "y": 2.0}}

func gReenter(vs []interface{}) (interface{}, error) {
	jsonpath.Retrieve(`$..*`, reDoc)
	jsonpath.Retrieve(`$.k[?(@ > 100)]`, reDoc)
	return append([]interface{}{}, vs...), nil
}
func fReenter(v interface{}) (interface{}, error) {
	jsonpath.Retrieve(`$.m.*`, reDoc)
	return v, nil
}

// FilterFuncs and AggregateFuncs: base behaviours; names with a digit suffix are aliases
// (f, f1, f2, f3 ...) so that every occurrence in a path can be told apart in call logs.
var baseFilter = map[string]func(interface{}) (interface{}, error){"f": fDouble, "id": fID, "e": fErr, "fre": fReenter, "nl": fNil, "box": fBox, "ie": fInnerErr, "acc": fAccessor}
var baseAggregate = map[string]func([]interface{}) (interface{}, error){"g": gList, "cnt": gCnt, "eg": gErr, "first": gFirst, "gre": gReenter, "all": gAll}

// Env is a matched pair: a model function table and a library Config, both recording.
type Env struct {
	Model    *spec.Funcs
	ModelLog []spec.Call
	ImplLog  []spec.Call
	// ImplFuncErrs counts user-function calls made by the library that returned an error.
	ImplFuncErrs int
	Cfg          jsonpath.Config
	CfgAcc       jsonpath.Config // same functions, accessor mode on
	// Observe, when set, runs at the start of every user-function call the library makes
	// (a user function is the one observer that legitimately runs DURING a retrieval)
	Observe func()
}

// NewEnv builds the standard environment.
func NewEnv() *Env {
	e := &Env{}
	// accessor mode is switched on BEFORE the functions are registered: the repository's own tests
	// and examples always use the other order (which C19's config kind 5 keeps)
	e.CfgAcc.SetAccessorMode()
	e.Model = &spec.Funcs{
		Filter:    map[string]func(interface{}) (interface{}, error){},
		Aggregate: map[string]func([]interface{}) (interface{}, error){},
		Log:       &e.ModelLog,
	}
	for base, fn := range baseFilter {
		for _, suf := range []string{"", "1", "2", "3"} {
			name, fn := base+suf, fn
			e.Model.Filter[name] = fn
			rec := func(v interface{}) (interface{}, error) {
				e.ImplLog = append(e.ImplLog, spec.Call{Name: name, Arg: v})
				if e.Observe != nil {
					e.Observe()
				}
				r, err := fn(v)
				if err != nil {
					e.ImplFuncErrs++
				}
				return r, err
			}
			e.Cfg.SetFilterFunction(name, rec)
			e.CfgAcc.SetFilterFunction(name, rec)
		}
	}
	for base, fn := range baseAggregate {
		for _, suf := range []string{"", "1", "2", "3"} {
			name, fn := base+suf, fn
			e.Model.Aggregate[name] = fn
			rec := func(vs []interface{}) (interface{}, error) {
				e.ImplLog = append(e.ImplLog, spec.Call{Name: name, Arg: append([]interface{}{}, vs...)})
				if e.Observe != nil {
					e.Observe()
				}
				r, err := fn(vs)
				if err != nil {
					e.ImplFuncErrs++
				}
				return r, err
			}
			e.Cfg.SetAggregateFunction(name, rec)
			e.CfgAcc.SetAggregateFunction(name, rec)
		}
	}
	return e
}

// ResetLogs clears both call logs.
func (e *Env) ResetLogs() {
	e.ModelLog = e.ModelLog[:0]
	e.ResetImpl()
}

// ResetImpl clears the library-side call log and error counter.
func (e *Env) ResetImpl() {
	e.ImplLog = e.ImplLog[:0]
	e.ImplFuncErrs = 0
}

// LogsByName groups a call log per function name (per occurrence when occurrences use
// distinct aliases).
func LogsByName(log []spec.Call) map[string][]interface{} {
	m := map[string][]interface{}{}
	for _, c := range log {
		m[c.Name] = append(m[c.Name], c.Arg)
	}
	return m
}

// SameLogs compares two logs per function name.
func SameLogs(a, b []spec.Call) bool {
	if len(a) != len(b) {
		return false
	}
	return reflect.DeepEqual(LogsByName(a), LogsByName(b))
}

// Unwrap turns accessor results into plain values; ok=false if some result is not an Accessor.
func Unwrap(vs []interface{}) (out []interface{}, ok bool) {
	out = make([]interface{}, len(vs))
	for i, v := range vs {
		a, isAcc := v.(jsonpath.Accessor)
		if !isAcc {
			return nil, false
		}
		out[i] = a.Get()
	}
	return out, true
}

// PureConfigs returns configs with the standard functions but without recording (safe to
// share between goroutines).
func PureConfigs() (plain, acc jsonpath.Config) {
	acc.SetAccessorMode()
	for base, fn := range baseFilter {
		for _, suf := range []string{"", "1", "2", "3"} {
			plain.SetFilterFunction(base+suf, fn)
			acc.SetFilterFunction(base+suf, fn)
		}
	}
	for base, fn := range baseAggregate {
		for _, suf := range []string{"", "1", "2", "3"} {
			plain.SetAggregateFunction(base+suf, fn)
			acc.SetAggregateFunction(base+suf, fn)
		}
	}
	return
}
