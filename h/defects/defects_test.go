// Package defects replays, as plain unit tests without any explorer, the genuine defects that
// the checks found on the pinned tree and that were repaired by "fix:" commits in /repo.
package defects

import (
	"encoding/json"
	"fmt"
	"os"
	"os/exec"
	"reflect"
	"strings"
	"testing"

	"github.com/AsaiYusuke/jsonpath"
)

func dec(s string, num bool) interface{} {
	d := json.NewDecoder(strings.NewReader(s))
	if num {
		d.UseNumber()
	}
	var v interface{}
	if err := d.Decode(&v); err != nil {
		panic(err)
	}
	return v
}

func js(v interface{}) string { b, _ := json.Marshal(v); return string(b) }

func get(t *testing.T, path, doc string, cfg ...jsonpath.Config) string {
	r, err := jsonpath.Retrieve(path, dec(doc, false), cfg...)
	if err != nil {
		return "ERR " + err.Error()
	}
	return js(r)
}

func TestD1(t *testing.T) {
	if os.Getenv("D1CHILD") == "1" {
		for _, p := range []string{`$[?(1 < 2)]`, `$[?($.a > 1)]`, `$[?(2 <= 1)]`, `$[?(1 >= $.a)]`} {
			r, err := jsonpath.Retrieve(p, dec(`{"a":2,"b":3}`, false))
			fmt.Println(p, js(r), err)
		}
		return
	}
	cmd := exec.Command(os.Args[0], "-test.run", "^TestD1$")
	cmd.Env = append(os.Environ(), "D1CHILD=1")
	out, err := cmd.CombinedOutput()
	s := string(out)
	if len(s) > 600 {
		s = s[:600]
	}
	if err != nil {
		t.Fatalf("child died: %v\n%s", err, s)
	}
	want := "$[?(1 < 2)] [2,3] <nil>\n$[?($.a > 1)] [2,3] <nil>\n$[?(2 <= 1)] null member did not exist (path=[?(2 <= 1)])\n$[?(1 >= $.a)] null member did not exist (path=[?(1 >= $.a)])\n"
	if !strings.HasPrefix(s, want) {
		t.Fatalf("got %q", s)
	}
}

func maxf(vs []interface{}) (interface{}, error) {
	m := 0.0
	for _, v := range vs {
		if f, ok := v.(float64); ok && f > m {
			m = f
		}
	}
	return m, nil
}

func TestD2(t *testing.T) {
	cfg := jsonpath.Config{}
	cfg.SetAggregateFunction("max", maxf)
	got := get(t, `$[?(@.max().max() == 1)]`, `[[1],[2],[0,1]]`, cfg)
	if got != `[[1],[0,1]]` {
		t.Fatal(got)
	}
}

func TestD3(t *testing.T) {
	defer func() {
		if e := recover(); e != nil {
			t.Fatal("panic:", e)
		}
	}()
	for _, p := range []string{`$[1::9223372036854775807]`, `$[0::9223372036854775807]`, `$[1:3:9223372036854775806]`} {
		got := get(t, p, `[1,2,3]`)
		want := `[2]`
		if strings.HasPrefix(p, "$[0") {
			want = `[1]`
		}
		if got != want {
			t.Fatal(p, got)
		}
	}
}

func TestD4(t *testing.T) {
	doc := dec(`[{"a":0},{"a":1}]`, false)
	jsonpath.Retrieve(`$[?(@.b != $.b)]`, doc)
	if js(doc) != `[{"a":0},{"a":1}]` {
		t.Fatal("source modified:", js(doc))
	}
	// clobbering of the member list between sibling queries
	for _, d := range []string{`[{"z":1}]`, `{"k":{"z":1}}`, `[{"z":1},{"y":2}]`} {
		got := get(t, `$[?(@.x != $.y || @.z)]`, d)
		if !strings.Contains(got, `{"z":1}`) || strings.HasPrefix(got, "ERR") {
			t.Fatal(d, got)
		}
	}
}

func TestD5(t *testing.T) {
	f, _ := jsonpath.Parse(`$.list[?($.a == 1)]`)
	r1, _ := f(dec(`{"a":2,"list":[1]}`, false))
	r2, _ := f(dec(`{"a":1,"list":[1]}`, false))
	if r1 != nil || js(r2) != `[1]` {
		t.Fatal(js(r1), js(r2))
	}
	g, _ := jsonpath.Parse(`$[?(1 == 2)]`)
	g(dec(`[1]`, false))
}

func TestD6(t *testing.T) {
	got := get(t, `$..['a','b'].c`, `{"a":{"c":1},"b":{"c":2},"x":{"a":{"c":3}}}`)
	if got != `[1,2,3]` {
		t.Fatal(got)
	}
}

func list(vs []interface{}) (interface{}, error) { return append([]interface{}{}, vs...), nil }

func TestD7(t *testing.T) {
	cfg := jsonpath.Config{}
	cfg.SetAggregateFunction("list", list)
	if got := get(t, `$.a.*.list()`, `{"a":[[3],[5]]}`, cfg); got != `[[[3],[5]]]` {
		t.Fatal(got)
	}
	if got := get(t, `$.a.list()`, `{"a":[[3],[5]]}`, cfg); got != `[[[3],[5]]]` {
		t.Fatal(got)
	}
}

func TestD8(t *testing.T) {
	cfg := jsonpath.Config{}
	var seen []interface{}
	cfg.SetAggregateFunction("list", func(vs []interface{}) (interface{}, error) { seen = append(seen, vs...); return 1.0, nil })
	cfg.SetAccessorMode()
	jsonpath.Retrieve(`$['a','b'].list()`, dec(`{"a":1,"b":2}`, false), cfg)
	if !reflect.DeepEqual(seen, []interface{}{1.0, 2.0}) {
		t.Fatalf("%#v", seen)
	}
}

func TestD9(t *testing.T) {
	doc := dec(`{"a":1,"b":[5]}`, true)
	r1, e1 := jsonpath.Retrieve(`$.b[?($.a == 1)]`, doc)
	r2, e2 := jsonpath.Retrieve(`$.b[?(1 == $.a)]`, doc)
	if js(r1) != js(r2) || e1 != nil || e2 != nil {
		t.Fatal(js(r1), e1, js(r2), e2)
	}
}

func TestD10(t *testing.T) {
	_, err := jsonpath.Parse(`$.é[`)
	if err == nil || err.Error() != `invalid syntax (position=3, reason=unrecognized input, near=[)` {
		t.Fatal(err)
	}
	_, err = jsonpath.Parse("$.\xff\xfe[")
	if err == nil || !strings.HasSuffix(err.Error(), "near=[)") && !strings.Contains(err.Error(), "position=2") {
		t.Fatal(err)
	}
}

func TestMultiText(t *testing.T) {
	if got := get(t, `$['a',*]`, `{}`); got != "ERR member did not exist (path=['a',*])" {
		t.Fatal(got)
	}
	if got := get(t, `$.*['a',*]`, `{"x":{},"y":1}`); got != "ERR member did not exist (path=['a',*])" {
		t.Fatal(got)
	}
}

func TestD12(t *testing.T) {
	doc := []interface{}{map[string]interface{}{"a": struct{}{}}}
	r, err := jsonpath.Retrieve(`$[?(@.a)]`, doc)
	if err != nil || len(r) != 1 {
		t.Fatal(r, err)
	}
	if r, err := jsonpath.Retrieve(`$[?(!@.a)]`, doc); err == nil {
		t.Fatal(r)
	}
}

// D13: an aggregate function that returns the list it was given must not make an earlier
// result alias the pooled buffer.
func TestD13(t *testing.T) {
	var cfg jsonpath.Config
	cfg.SetAggregateFunction("all", func(vs []interface{}) (interface{}, error) { return vs, nil })
	f, err := jsonpath.Parse(`$[1:].all()`, cfg)
	if err != nil {
		t.Fatal(err)
	}
	r1, err := f([]interface{}{1.0, 1.0})
	if err != nil {
		t.Fatal(err)
	}
	before := fmt.Sprint(r1)
	for i := 0; i < 4; i++ {
		if _, err := f([]interface{}{2.0, 3.0, 4.0}); err != nil {
			t.Fatal(err)
		}
	}
	if after := fmt.Sprint(r1); after != before {
		t.Fatalf("first result changed from %s to %s", before, after)
	}
}
