module verif/h

go 1.23

require github.com/AsaiYusuke/jsonpath v0.0.0

replace github.com/AsaiYusuke/jsonpath => /repo
