// Package conc defines the concurrent drivers (scenarios) of C06: small sets of threads, each
// running one to three library operations on objects that are forced to be shared. The same
// driver bodies run under the controlled scheduler (instrumented build, h/checks/c06.go) and
// free-running under the race detector (plain build, h/cmd/racepass).
package conc

import (
	"encoding/json"
	"fmt"
	"reflect"
	"strings"

	"github.com/AsaiYusuke/jsonpath"

	"verif/h/gen"
	"verif/h/impl"
)

// Op is one library operation.
type Op struct {
	Parse bool   // Parse(Path, Cfg) and fingerprint the result; else call shared function Fn on shared document Doc
	Path  string // Parse only
	Cfg   int    // 0 none, 1 functions, 2 functions + accessor mode
	Fn    int
	Doc   int
}

// FnSpec is a shared parsed function.
type FnSpec struct {
	Path string
	Cfg  int
}

// Scenario is a closed driver.
type Scenario struct {
	Name    string
	Fns     []FnSpec
	Docs    []string // JSON text
	Threads [][]Op
	// Fresh: the documents are built in Go for every execution with leaf types the process has
	// never seen before ([n]int for a fresh n), so that anything built lazily per Go type is
	// first touched concurrently. Docs then only gives the number of documents; the run-alone
	// outcomes are computed on the same documents after the execution.
	Fresh bool
	// Late: the run-alone outcomes are computed AFTER the execution (a sequential baseline run
	// first would warm up whatever the library builds lazily - per Go type, per array length)
	Late bool
}

var freshCounter = 1000

// freshDoc returns {"a":{"b":[n]int{}}} for an n not used before in this process.
func freshDoc() interface{} {
	freshCounter++
	leaf := reflect.New(reflect.ArrayOf(freshCounter, reflect.TypeOf(0))).Elem().Interface()
	return map[string]interface{}{"a": map[string]interface{}{"b": leaf}}
}

// Corpus: one entry per node kind, comparator, logical operator and function kind; D1/D2 flip
// the outcome.
type CorpusEntry struct {
	Path   string
	Cfg    int
	D1, D2 string
}

var Corpus = []CorpusEntry{
	{`$.a`, 0, `{"a":1}`, `{"b":2}`},
	{`$['a','b']`, 0, `{"a":1,"b":2}`, `{"c":1}`},
	{`$['a',*]`, 0, `{"b":2,"a":1}`, `{}`},
	{`$.*`, 0, `{"b":2,"a":1}`, `[]`},
	{`$..a`, 0, `{"x":{"a":1},"a":{"a":2}}`, `[[1]]`},
	{`$..*`, 0, `{"b":[1,{"a":2}],"a":1}`, `1`},
	{`$..['a','b'].c`, 0, `{"a":{"c":1},"b":{"c":2}}`, `{"a":1}`},
	{`$[0]`, 0, `[1]`, `[]`},
	{`$[-1]`, 0, `[1,2]`, `{}`},
	{`$[0:2]`, 0, `[1,2,3]`, `{}`},
	{`$[::-1]`, 0, `[1,2,3]`, `[]`},
	{`$[0,1,0]`, 0, `[1,2]`, `[]`},
	{`$[*,*]`, 0, `[1,2]`, `{"a":1}`},
	{`$[0,1:2,*]`, 0, `[1,2]`, `[]`},
	{`$[?(@.a)]`, 0, `[{"a":1},{"b":1}]`, `[{"b":1}]`},
	{`$[?(!@.a)]`, 0, `[{"a":1},{"b":1}]`, `[{"a":1}]`},
	{`$[?(@.*)]`, 0, `{"k":{"a":1},"j":{}}`, `[{}]`},
	{`$[?(@.a == 1)]`, 0, `[{"a":1},{"a":2}]`, `[{"a":2}]`},
	{`$[?(@.a != 1)]`, 0, `[{"a":1},{"a":2}]`, `[{"a":1}]`},
	{`$[?(@.a < 2)]`, 0, `[{"a":1},{"a":2}]`, `[{"a":2}]`},
	{`$[?(@.a <= 1)]`, 0, `[{"a":1},{"a":2}]`, `[{"a":2}]`},
	{`$[?(@.a > 1)]`, 0, `[{"a":1},{"a":2}]`, `[{"a":1}]`},
	{`$[?(2 >= @.a)]`, 0, `[{"a":1},{"a":3}]`, `[{"a":3}]`},
	{`$[?(@.a =~ /x/)]`, 0, `[{"a":"x"},{"a":"y"}]`, `[{"a":"y"}]`},
	{`$[?(@.a == 'x')]`, 0, `[{"a":"x"},{"a":"y"}]`, `[{"a":1}]`},
	{`$[?(@.a == true)]`, 0, `[{"a":true},{"a":1}]`, `[{"a":false}]`},
	{`$[?(@.a == null)]`, 0, `[{"a":null},{"a":1}]`, `[{"b":null}]`},
	{`$.c[?(@.a == $.b)]`, 0, `{"b":1,"c":[{"a":1},{"a":2}]}`, `{"b":3,"c":[{"a":1}]}`},
	{`$.c[?($.b == 1)]`, 0, `{"b":2,"c":[5]}`, `{"b":1,"c":[5]}`},
	{`$.c[?(1 == $.b)]`, 0, `{"b":2,"c":[5]}`, `{"b":1,"c":[5]}`},
	{`$.c[?($.b > 1)]`, 0, `{"b":2,"c":[5]}`, `{"b":1,"c":[5]}`},
	{`$.c[?($.b != $.a)]`, 0, `{"b":2,"c":[5,6]}`, `{"c":[5]}`},
	{`$[?(1 == 2)]`, 0, `[1]`, `[2,3]`},
	{`$[?(1 < 2)]`, 0, `[1]`, `[]`},
	{`$[?('a' == 'a')]`, 0, `[1]`, `{}`},
	{`$[?(@.a && @.b)]`, 0, `[{"a":1,"b":1},{"a":1}]`, `[{"a":1}]`},
	{`$[?(@.a || @.b)]`, 0, `[{"a":1},{"b":1},{"c":1}]`, `[{"c":1}]`},
	{`$[?(@.a == 1 || !@.b)]`, 0, `[{"a":1,"b":1},{"b":1},{"c":1}]`, `[{"b":1}]`},
	{`$[?(@.x != $.y || @.z)]`, 0, `[{"z":1},{"y":2}]`, `{"y":1,"k":{"x":1}}`},
	{`$[?((@.a || @.b) && @.c)]`, 0, `[{"a":1,"c":1},{"b":1}]`, `[{"c":1}]`},
	{`$[?(@.a[?(@.b)])]`, 0, `[{"a":[{"b":1}]},{"a":[1]}]`, `[{"a":[]}]`},
	{`$..[?(@.a > 1 && @.b)]`, 0, `{"x":[{"a":2,"b":1},{"a":1,"b":1}]}`, `[{"a":2}]`},
	{`$.*.f()`, 1, `[1,2]`, `["a"]`},
	{`$.*.g()`, 1, `{"b":2,"a":1}`, `{}`},
	{`$.a.*.cnt()`, 1, `{"a":[[3],[5]]}`, `{"a":[]}`},
	{`$[?(@.f() == 2)]`, 1, `[1,2]`, `["a"]`},
	{`$[?(@.*.cnt() == 2)]`, 1, `[[1,2],[1]]`, `[[1]]`},
	{`$.a.e()`, 1, `{"a":1}`, `{}`},
	{`$['a','b'].g()`, 2, `{"a":1,"b":2}`, `{}`},
	{`$.*`, 2, `{"b":2,"a":1}`, `[]`},
	{`$[?(@.a == 1)].a`, 2, `[{"a":1},{"a":2}]`, `[{"a":2}]`},
	// (appended: indices above are referred to by number below)
	{`$[-2:]`, 0, `[1,2,3]`, `{}`},
	{`$[-3:-1]`, 0, `[1,2,3,4]`, `[1]`},
}

// CorpusD3: for some entries, another document (of a different size) on which the path also succeeds.
var CorpusD3 = map[string]string{
	`$[-1]`:                `[7,8,9]`,
	`$[-2:]`:               `[4,5]`,
	`$[-3:-1]`:             `[5,6,7]`,
	`$.*`:                  `{"c":3,"b":2,"a":1}`,
	`$..*`:                 `[{"x":{"y":1}}]`,
	`$[0:2]`:               `[7]`,
	`$[::-1]`:              `[8,9]`,
	`$[0,1,0]`:             `[5]`,
	`$[*,*]`:               `[3]`,
	`$[0,1:2,*]`:           `[4,5,6]`,
	`$[?(@.a)]`:            `{"k":{"a":1},"j":{"a":2},"i":{"a":3}}`,
	`$[?(@.a == 1)]`:       `[{"a":2},{"a":1},{"a":1}]`,
	`$[?(@.a || @.b)]`:     `[{"b":2}]`,
	`$.*.g()`:              `[9]`,
	`$[?(@.*.cnt() == 2)]`: `[[3,4]]`,
}

// ParseCorpus: (path, config) pairs for Parse operations, including failing ones.
var ParseCorpus = []FnSpec{
	{`$.a[?(@.b == 1)]`, 0},
	{`$..['a','b'].c`, 0},
	{`$.*.f()`, 1},
	{`$.*.f()`, 0}, // function not found
	{`$[?(@.g().f() > 1)]`, 2},
	{`$[?(@.a == @.b)]`, 0}, // two current nodes
	{`$[(1)]`, 0},           // script
	{`$[99999999999999999999]`, 0},
	{`$.a[`, 0},
	{`$[?(@.* == 1)]`, 0}, // value group
	{`$[?(@.a =~ /(/)]`, 0},
	{`$['a\q']`, 0},
}

func Config(kind int) []jsonpath.Config {
	plain, acc := impl.PureConfigs()
	switch kind {
	case 1:
		return []jsonpath.Config{plain}
	case 2:
		return []jsonpath.Config{acc}
	}
	return nil
}

func Decode(text string) interface{} {
	var v interface{}
	if err := json.Unmarshal([]byte(text), &v); err != nil {
		panic(err)
	}
	return v
}

func showValues(vs []interface{}) string {
	out := make([]interface{}, len(vs))
	for i, v := range vs {
		if a, ok := v.(jsonpath.Accessor); ok {
			out[i] = map[string]interface{}{"accessor": a.Get(), "settable": a.Set != nil}
		} else {
			out[i] = v
		}
	}
	b, err := json.Marshal(out)
	if err != nil {
		return fmt.Sprintf("%#v", vs)
	}
	return string(b)
}

// CallOutcome renders the outcome of one call of a parsed function.
func CallOutcome(f func(interface{}) ([]interface{}, error), doc interface{}) (s string) {
	defer func() {
		if e := recover(); e != nil {
			s = fmt.Sprint("panic: ", e)
		}
	}()
	vs, err := f(doc)
	if err != nil {
		return impl.ErrType(err) + ": " + err.Error()
	}
	return showValues(vs)
}

var probeDocs = []string{`{"a":[{"b":1,"c":2},{"b":2}],"b":{"c":3}}`, `[1,{"a":1,"b":1},[2]]`}

// ParseOutcome renders the outcome of a Parse: the error, or a behavioural fingerprint of
// the returned function.
func ParseOutcome(path string, cfg int) (s string) {
	defer func() {
		if e := recover(); e != nil {
			s = fmt.Sprint("panic: ", e)
		}
	}()
	f, err := jsonpath.Parse(path, Config(cfg)...)
	if err != nil {
		if f != nil {
			return "function AND error " + err.Error()
		}
		return impl.ErrType(err) + ": " + err.Error()
	}
	if f == nil {
		return "nil, nil"
	}
	var parts []string
	for _, d := range probeDocs {
		parts = append(parts, CallOutcome(f, Decode(d)))
	}
	return "ok " + strings.Join(parts, " | ")
}

// World is one fresh instantiation of a scenario.
type World struct {
	Sc       *Scenario
	Fns      []func(interface{}) ([]interface{}, error)
	Docs     []interface{}
	Outcomes [][]string // per thread, per op
}

// Build creates fresh shared objects (never reuse them across executions).
func (sc *Scenario) Build() *World {
	w := &World{Sc: sc}
	for _, fs := range sc.Fns {
		f, err := jsonpath.Parse(fs.Path, Config(fs.Cfg)...)
		if err != nil {
			panic("conc: shared function does not parse: " + fs.Path + ": " + err.Error())
		}
		w.Fns = append(w.Fns, f)
	}
	for _, d := range sc.Docs {
		if sc.Fresh && d == "" {
			w.Docs = append(w.Docs, freshDoc())
		} else {
			w.Docs = append(w.Docs, Decode(d))
		}
	}
	w.Outcomes = make([][]string, len(sc.Threads))
	for i := range w.Outcomes {
		w.Outcomes[i] = make([]string, len(sc.Threads[i]))
	}
	return w
}

// Body returns the body of thread t.
func (w *World) Body(t int) func() {
	return func() {
		for k, op := range w.Sc.Threads[t] {
			if op.Parse {
				w.Outcomes[t][k] = ParseOutcome(op.Path, op.Cfg)
			} else {
				w.Outcomes[t][k] = CallOutcome(w.Fns[op.Fn], w.Docs[op.Doc])
			}
		}
	}
}

// Expected computes the run-alone outcome of every operation on fresh objects.
func (sc *Scenario) Expected() [][]string {
	out := make([][]string, len(sc.Threads))
	if sc.Fresh || sc.Late {
		return out // computed after the execution, on the execution's own documents (ExpectedAfter)
	}
	for t, ops := range sc.Threads {
		for _, op := range ops {
			if op.Parse {
				out[t] = append(out[t], ParseOutcome(op.Path, op.Cfg))
			} else {
				f, err := jsonpath.Parse(sc.Fns[op.Fn].Path, Config(sc.Fns[op.Fn].Cfg)...)
				if err != nil {
					panic(err)
				}
				out[t] = append(out[t], CallOutcome(f, Decode(sc.Docs[op.Doc])))
			}
		}
	}
	return out
}

// ExpectedAfter computes the run-alone outcomes of a Fresh scenario on the documents of this
// execution (freshly parsed functions; the documents are read-only).
func (w *World) ExpectedAfter() [][]string {
	out := make([][]string, len(w.Sc.Threads))
	for t, ops := range w.Sc.Threads {
		for _, op := range ops {
			f, err := jsonpath.Parse(w.Sc.Fns[op.Fn].Path, Config(w.Sc.Fns[op.Fn].Cfg)...)
			if err != nil {
				panic(err)
			}
			out[t] = append(out[t], CallOutcome(f, w.Docs[op.Doc]))
		}
	}
	return out
}

// Check compares the outcomes of an execution with the run-alone outcomes and verifies that
// shared documents are unchanged and shared functions still behave like freshly parsed ones.
func (w *World) Check(expected [][]string) (ok bool, detail string) {
	if w.Sc.Fresh || w.Sc.Late {
		expected = w.ExpectedAfter()
		for t := range expected {
			for k := range expected[t] {
				if w.Outcomes[t][k] != expected[t][k] {
					return false, fmt.Sprintf("thread %d op %d (%s) returned %s; run alone on the same document it returns %s", t, k, w.Sc.OpString(w.Sc.Threads[t][k]), w.Outcomes[t][k], expected[t][k])
				}
			}
		}
		return true, ""
	}
	for t := range expected {
		for k := range expected[t] {
			if w.Outcomes[t][k] != expected[t][k] {
				return false, fmt.Sprintf("thread %d op %d (%s) returned %s; run alone it returns %s", t, k, w.Sc.OpString(w.Sc.Threads[t][k]), w.Outcomes[t][k], expected[t][k])
			}
		}
	}
	for i, d := range w.Docs {
		b, _ := json.Marshal(d)
		var want interface{}
		json.Unmarshal([]byte(w.Sc.Docs[i]), &want)
		wb, _ := json.Marshal(want)
		if string(b) != string(wb) {
			return false, fmt.Sprintf("shared document %d is %s after the execution, was %s", i, b, wb)
		}
	}
	for i, f := range w.Fns {
		for di, d := range w.Sc.Docs {
			fresh, err := jsonpath.Parse(w.Sc.Fns[i].Path, Config(w.Sc.Fns[i].Cfg)...)
			if err != nil {
				continue
			}
			got, want := CallOutcome(f, Decode(d)), CallOutcome(fresh, Decode(d))
			if got != want {
				return false, fmt.Sprintf("after the execution shared function %s returns %s on document %d; a fresh Parse returns %s", w.Sc.Fns[i].Path, got, di, want)
			}
		}
	}
	return true, ""
}

// OpString renders an operation.
func (sc *Scenario) OpString(op Op) string {
	if op.Parse {
		return fmt.Sprintf("Parse(%q, cfg%d)", op.Path, op.Cfg)
	}
	return fmt.Sprintf("f[%s](%s)", sc.Fns[op.Fn].Path, sc.Docs[op.Doc])
}

// Scenarios lists the drivers S1..S6.
func Scenarios(tier string) []Scenario {
	var out []Scenario
	call := func(fn, doc int) Op { return Op{Fn: fn, Doc: doc} }
	parse := func(fs FnSpec) Op { return Op{Parse: true, Path: fs.Path, Cfg: fs.Cfg} }
	// S2: one shared function, two threads, documents flipping the outcome
	for _, c := range Corpus {
		out = append(out, Scenario{
			Name: "S2 shared " + c.Path, Fns: []FnSpec{{c.Path, c.Cfg}}, Docs: []string{c.D1, c.D2},
			Threads: [][]Op{{call(0, 0)}, {call(0, 1)}},
		})
	}
	// S2b: one shared function on two documents of different sizes on which it succeeds
	for _, c := range Corpus {
		d3, ok := CorpusD3[c.Path]
		if !ok || c.Cfg == 2 {
			continue
		}
		out = append(out, Scenario{
			Name: "S2b shared " + c.Path + " (both succeed)", Fns: []FnSpec{{c.Path, c.Cfg}}, Docs: []string{c.D1, d3},
			Threads: [][]Op{{call(0, 0)}, {call(0, 1)}},
		})
	}
	// S1: Parse || Parse, all ordered pairs
	pc := ParseCorpus
	if tier != "thorough" {
		pc = pc[:8]
	}
	for _, a := range pc {
		for _, b := range pc {
			out = append(out, Scenario{Name: fmt.Sprintf("S1 Parse(%s,cfg%d) || Parse(%s,cfg%d)", a.Path, a.Cfg, b.Path, b.Cfg), Threads: [][]Op{{parse(a)}, {parse(b)}}})
		}
	}
	// S3: Parse || call of a shared function
	shared := []int{14, 17, 27, 28, 38, 41, 42, 44}
	for _, a := range pc {
		for _, ci := range shared[:6] {
			c := Corpus[ci]
			out = append(out, Scenario{Name: fmt.Sprintf("S3 Parse(%s) || f[%s]", a.Path, c.Path), Fns: []FnSpec{{c.Path, c.Cfg}}, Docs: []string{c.D1},
				Threads: [][]Op{{parse(a)}, {call(0, 0)}}})
		}
	}
	// S4: three threads (the recursive-filter function is left to the two-thread drivers in the
	// quick tier: with three threads it alone needs >10^5 schedules at bound 2)
	shared3 := shared
	if tier != "thorough" {
		shared3 = []int{14, 17, 27, 28, 38, 42, 44}
	}
	for k, ci := range shared3 {
		c, c2 := Corpus[ci], Corpus[shared3[(k+1)%len(shared3)]]
		out = append(out, Scenario{Name: fmt.Sprintf("S4 Parse || f[%s] || g[%s]", c.Path, c2.Path), Fns: []FnSpec{{c.Path, c.Cfg}, {c2.Path, c2.Cfg}}, Docs: []string{c.D1, c2.D1},
			Threads: [][]Op{{parse(pc[k%len(pc)])}, {call(0, 0)}, {call(1, 1)}}})
		out = append(out, Scenario{Name: fmt.Sprintf("S4b f[%s] x3", c.Path), Fns: []FnSpec{{c.Path, c.Cfg}}, Docs: []string{c.D1, c.D2},
			Threads: [][]Op{{call(0, 0)}, {call(0, 1)}, {call(0, 0)}}})
	}
	// S5: two different functions on one shared document
	s5 := [][2]string{
		{`$[?(@.b != $.b)]`, `$[?(@.a == 0)]`}, {`$[?(@.a)]`, `$..a`}, {`$[?(@.x != $.y || @.a)]`, `$.*`}, {`$[?(!@.b)]`, `$[?(@.b != $.b)]`},
		{`$[::-1]`, `$[?(@.a > 0)]`}, {`$[?($.x == $.y)]`, `$[?($.x != $.y)]`}, {`$[0,1]`, `$[*,*]`}, {`$..[?(@.a == $.b)]`, `$[?(@.a || @.b)]`},
	}
	for _, pq := range s5 {
		out = append(out, Scenario{Name: "S5 " + pq[0] + " || " + pq[1] + " on one document", Fns: []FnSpec{{pq[0], 0}, {pq[1], 0}}, Docs: []string{`[{"a":0},{"a":1}]`},
			Threads: [][]Op{{call(0, 0)}, {call(1, 0)}}})
	}
	out = append(out, generated(tier)...)
	// S9: a warm-up call on an object of 70 members (size thresholds of pooled buffers), then
	// two overlapping calls on small objects
	var sb strings.Builder
	sb.WriteString("{")
	for i := 0; i < 70; i++ {
		if i > 0 {
			sb.WriteString(",")
		}
		fmt.Fprintf(&sb, `"k%02d":%d`, (i*37)%70, i)
	}
	sb.WriteString("}")
	for _, path := range []string{`$.*`, `$..*`, `$[?(@ > 1)]`, `$['k01','b',*]`} {
		out = append(out, Scenario{Name: "S9 big object first, then two calls " + path, Fns: []FnSpec{{path, 0}},
			Docs:    []string{sb.String(), `{"b":2,"a":1}`, `{"d":4,"c":3,"e":5}`},
			Threads: [][]Op{{call(0, 0), call(0, 1)}, {call(0, 2)}}})
	}
	// S9b: two arrays longer than 64 elements (and longer than anything evaluated before in the
	// process) under a wildcard at the same time
	arr := func(n int) string {
		var b strings.Builder
		b.WriteString("[")
		for i := 0; i < n; i++ {
			if i > 0 {
				b.WriteString(",")
			}
			fmt.Fprintf(&b, "%d", i)
		}
		b.WriteString("]")
		return b.String()
	}
	for _, path := range []string{`$[*]`, `$[0:]`, `$..*`, `$[?(@ > 1)]`, `$[*,0]`, `$[*,*]`, `$[::2]`, `$[::-1]`, `$[1,-1,5:]`} {
		out = append(out, Scenario{Name: "S9b long arrays " + path, Fns: []FnSpec{{path, 0}}, Docs: []string{arr(70), arr(90)}, Late: true,
			Threads: [][]Op{{call(0, 0)}, {call(0, 1)}}})
	}
	// S8: non-JSON leaves of Go types the process has not seen before, every kind of step applied to them
	for _, path := range []string{`$.a.b.c`, `$.a.b[0]`, `$.a.b.*`, `$.a.b[?(@.x)]`, `$.a.b..x`, `$.a.b['x','y']`, `$.a[?(@.b.f() == 1)]`} {
		out = append(out, Scenario{Name: "S8 fresh Go types " + path, Fns: []FnSpec{{path, 1}}, Docs: []string{"", ""}, Fresh: true,
			Threads: [][]Op{{call(0, 0)}, {call(0, 1)}, {call(0, 0)}}})
	}
	// S6: two operations per thread
	for _, ci := range []int{14, 17, 27, 28, 29, 32, 38, 41, 44, 49} {
		c := Corpus[ci]
		out = append(out, Scenario{Name: "S6 Parse;call || call;call " + c.Path, Fns: []FnSpec{{c.Path, c.Cfg}}, Docs: []string{c.D1, c.D2},
			Threads: [][]Op{{parse(FnSpec{c.Path, c.Cfg}), call(0, 0)}, {call(0, 1), call(0, 0)}}})
	}
	return out
}

// generated returns the drivers "S7": for EVERY path of the step ladder (all paths of <=2 steps
// over the full step alphabet, functions after <=1 step; quick tier: <=1 step plus every pair
// over the mid alphabet) one shared parsed function called by two threads on two different
// documents. The documents are chosen by exhaustive scoring over the small document set: the
// first document on which the path succeeds, then the first one on which it succeeds with a
// root container of another size (else with another result, else the first on which it fails).
func generated(tier string) []Scenario {
	var paths []*gen.Path
	seen := map[string]bool{}
	add := func(l gen.Ladder) {
		for _, u := range l.Units() {
			for _, p := range u.Paths() {
				t := gen.Render(p, nil).Text
				if !seen[t] {
					seen[t] = true
					paths = append(paths, p)
				}
			}
		}
	}
	add(gen.Ladder{Alpha: gen.SigmaFull(), Depth: 1, Funcs: gen.FuncSuffixes(), FuncDepth: 1})
	add(gen.Ladder{Alpha: gen.SigmaMid(), Depth: 2})
	if tier == "thorough" {
		add(gen.Ladder{Alpha: gen.SigmaFull(), Depth: 2, Funcs: gen.FuncSuffixes(), FuncDepth: 1})
	}
	var docs []interface{}
	var texts []string
	for _, d := range append(gen.Docs(gen.DocSpec{MaxNodes: 3, Keys: gen.KAB, Scalars: gen.S3, MaxArr: 3}), gen.WideDocs()...) {
		docs = append(docs, d)
		texts = append(texts, gen.JSON(d))
	}
	size := func(v interface{}) int {
		switch t := v.(type) {
		case map[string]interface{}:
			return len(t)
		case []interface{}:
			return len(t)
		}
		return -1
	}
	var out []Scenario
	for _, p := range paths {
		text := gen.Render(p, nil).Text
		f, err := jsonpath.Parse(text, Config(1)...)
		if err != nil {
			continue
		}
		d1, d2, dOther, dFail := -1, -1, -1, -1
		e1, e2, re1 := -1, -1, ""
		r1 := ""
		for di, d := range docs {
			o := CallOutcome(f, gen.Clone(d))
			ok := strings.HasPrefix(o, "[")
			switch {
			case ok && d1 < 0:
				d1, r1 = di, o
			case ok && d2 < 0 && size(d) != size(docs[d1]) && o != r1:
				d2 = di
			case ok && dOther < 0 && o != r1:
				dOther = di
			case !ok && dFail < 0:
				dFail = di
			}
			if strings.HasPrefix(o, "ErrorTypeUnmatched") {
				if e1 < 0 {
					e1, re1 = di, o
				} else if e2 < 0 && o != re1 {
					e2 = di
				}
			}
			if d1 >= 0 && d2 >= 0 && (e2 >= 0 || di > 400) {
				break
			}
		}
		if d2 < 0 {
			d2 = dOther
		}
		if d2 < 0 {
			d2 = dFail
		}
		if d1 < 0 || d2 < 0 {
			continue
		}
		out = append(out, Scenario{
			Name: "S7 shared " + text, Fns: []FnSpec{{text, 1}}, Docs: []string{texts[d1], texts[d2]},
			Threads: [][]Op{{Op{Fn: 0, Doc: 0}}, {Op{Fn: 0, Doc: 1}}},
		})
		if e1 >= 0 && e2 >= 0 && len(p.Steps) <= 1 {
			// both calls fail with a type error that names a different found type
			out = append(out, Scenario{
				Name: "S7e shared " + text + " (both fail)", Fns: []FnSpec{{text, 1}}, Docs: []string{texts[e1], texts[e2]},
				Threads: [][]Op{{Op{Fn: 0, Doc: 0}}, {Op{Fn: 0, Doc: 1}}},
			})
		}
	}
	return out
}

// SharedDocProduct lists the paths and the documents of the shared-document pass: every path
// of <=1 step over the full step alphabet with every function suffix, plus every pair over the
// mid alphabet, each evaluated by two goroutines at the same time on ONE document object (two
// separately parsed functions), for every small, wide and big document. Under the race detector
// any write to the document - also one that stores the value that was already there - is
// reported (property C04: "the only way the library ever writes to caller data is Set").
func SharedDocProduct(tier string) (paths []string, docs []string) {
	seen := map[string]bool{}
	add := func(l gen.Ladder) {
		for _, u := range l.Units() {
			for _, p := range u.Paths() {
				t := gen.Render(p, nil).Text
				if !seen[t] {
					seen[t] = true
					paths = append(paths, t)
				}
			}
		}
	}
	add(gen.Ladder{Alpha: gen.SigmaFull(), Depth: 1, Funcs: gen.FuncSuffixes(), FuncDepth: 1})
	add(gen.Ladder{Alpha: gen.SigmaMid(), Depth: 2})
	for _, q := range gen.ReducedAtoms() {
		add(gen.Ladder{Alpha: []gen.Step{gen.Filter(q)}, Depth: 1})
	}
	spec := gen.DocSpec{MaxNodes: 3, Keys: gen.KAB, Scalars: gen.S3, MaxArr: 3}
	if tier == "thorough" {
		spec.MaxNodes = 4
	}
	for _, d := range append(append(gen.Docs(spec), gen.WideDocs()...), gen.BigDocs()...) {
		if t := gen.JSON(d); t != "<unmarshalable>" {
			docs = append(docs, t)
		}
	}
	return
}
