//go:build verif

// Package sched is the explorer for the instrumented build: a cooperative scheduler that owns
// every scheduling point, lock, pool answer and map iteration order of the package under
// test (through verifshim's hooks) and a depth-first search over all choice sequences with an
// iteratively increased deviation bound (preemptions + non-default environment answers).
package sched

import (
	"fmt"
	"runtime"

	shim "github.com/AsaiYusuke/jsonpath/verifshim"
)

// PointKind classifies choice points.
type PointKind uint8

const (
	KSched PointKind = iota
	KPool
	KMapOrder
)

// PointInfo describes one choice point of an execution.
type PointInfo struct {
	Kind    PointKind
	N       int // number of options
	AltCost int // cost of taking any option other than 0
	Site    string
}

// Exec is one complete execution.
type Exec struct {
	Choices  []int
	Points   []PointInfo
	Deadlock bool
	Horizon  bool
	Panics   []string // per thread ("" = none)
	Steps    int
	Diverged string // non-empty: the prefix could not be replayed (hard error)
}

type tstate uint8

const (
	tReady tstate = iota
	tBlocked
	tDone
)

type thread struct {
	id      int
	fn      func()
	wake    chan bool
	state   tstate
	blocked *shim.Mutex
	panic   string
}

// Options tune which environment answers are enumerated.
type Options struct {
	PoolChoices bool // enumerate which pooled item a Get returns
	MapChoices  bool // enumerate map iteration orders
	MaxSteps    int
	// PointFilter, if set, says which function-entry points are scheduling points in this
	// exploration (lock and pool operations always are).
	PointFilter func(site string) bool
}

type world struct {
	opt        Options
	threads    []*thread
	cur        int // running thread, -1 = sequential (setup / check) mode
	yield      chan int
	prefix     []int
	x          *Exec
	dead       bool
	sequential bool
}

var w *world
var knownPools = map[*shim.Pool]bool{}

func (wd *world) choose(kind PointKind, n int, altCost int, site string) int {
	i := len(wd.x.Points)
	c := 0
	if i < len(wd.prefix) {
		c = wd.prefix[i]
		if c < 0 || c >= n {
			wd.x.Diverged = fmt.Sprintf("choice %d at point %d (%s) out of range [0,%d)", c, i, site, n)
			c = 0
		}
	}
	wd.x.Points = append(wd.x.Points, PointInfo{Kind: kind, N: n, AltCost: altCost, Site: site})
	wd.x.Choices = append(wd.x.Choices, c)
	return c
}

func (wd *world) enabledCount() int {
	n := 0
	for _, t := range wd.threads {
		if t.state == tReady {
			n++
		}
	}
	return n
}

// yieldNow hands control to the scheduler and waits to be resumed.
func (wd *world) yieldNow(t *thread) {
	wd.yield <- t.id
	if !<-t.wake {
		runtime.Goexit()
	}
}

func hookPoint(site string) {
	wd := w
	if wd == nil || wd.cur < 0 || wd.dead {
		return
	}
	t := wd.threads[wd.cur]
	if wd.opt.PointFilter != nil && !isSyncSite(site) && !wd.opt.PointFilter(site) {
		return
	}
	wd.x.Steps++
	if wd.opt.MaxSteps > 0 && wd.x.Steps > wd.opt.MaxSteps {
		wd.x.Horizon = true
		wd.dead = true
		wd.yield <- t.id
		<-t.wake
		runtime.Goexit()
	}
	if wd.enabledCount() <= 1 {
		return // the caller is the only enabled thread: not a choice
	}
	wd.yieldNow(t)
}

func isSyncSite(site string) bool {
	switch site {
	case "Mutex.Lock", "Mutex.Unlock", "Pool.Get", "Pool.Put":
		return true
	}
	return false
}

// CoarsePoints keeps, besides lock and pool operations, the entries of the public API, of the
// generated parser's phases and of every retrieve/compute method of the syntax tree.
func CoarsePoints(site string) bool {
	switch site {
	case "Parse", "Retrieve", "(*pegJSONPathParser).Execute", "(*pegJSONPathParser).Parse", "(*pegJSONPathParser).Init", "(*pegJSONPathParser).Reset":
		return true
	}
	n := len(site)
	return (n > 9 && site[n-9:] == ".retrieve") || (n > 8 && site[n-8:] == ".compute")
}

func hookLock(m *shim.Mutex) {
	wd := w
	if wd == nil || wd.cur < 0 || wd.dead {
		if m.Held && wd != nil && !wd.dead {
			panic("sched: lock of a held mutex in sequential mode")
		}
		m.Held = true
		return
	}
	t := wd.threads[wd.cur]
	hookPoint("Mutex.Lock")
	for m.Held {
		t.state, t.blocked = tBlocked, m
		wd.yieldNow(t)
	}
	m.Held, m.Owner = true, t.id
}

func hookUnlock(m *shim.Mutex) {
	wd := w
	m.Held = false
	if wd == nil || wd.dead {
		return
	}
	for _, t := range wd.threads {
		if t.state == tBlocked && t.blocked == m {
			t.state, t.blocked = tReady, nil
		}
	}
	if wd.cur >= 0 {
		hookPoint("Mutex.Unlock")
	}
}

func hookPoolGet(p *shim.Pool) (interface{}, bool) {
	wd := w
	knownPools[p] = true
	n := len(p.Items)
	idx := 0 // 0 = most recently put
	if wd != nil && !wd.dead && (wd.cur >= 0 || wd.sequential) {
		if wd.cur >= 0 {
			hookPoint("Pool.Get")
			n = len(p.Items)
		}
		if wd.opt.PoolChoices && n >= 1 {
			// options: each pooled item (most recent first), then "miss" (New)
			idx = wd.choose(KPool, n+1, 1, "Pool.Get")
		}
	}
	if n == 0 || idx >= n {
		return nil, false
	}
	pos := n - 1 - idx
	x := p.Items[pos]
	p.Items = append(p.Items[:pos:pos], p.Items[pos+1:]...)
	return x, true
}

func hookPoolPut(p *shim.Pool, x interface{}) {
	knownPools[p] = true
	wd := w
	if wd != nil && wd.cur >= 0 && !wd.dead {
		hookPoint("Pool.Put")
	}
	p.Items = append(p.Items, x)
}

func factorial(n int) int {
	f := 1
	for i := 2; i <= n; i++ {
		f *= i
	}
	return f
}

// permute applies the k-th permutation (k=0 identity) to sorted keys: all n! orders for
// n <= 4, rotations and reversed rotations beyond.
func permute(keys []string, k int) {
	n := len(keys)
	if k == 0 || n < 2 {
		return
	}
	src := append([]string{}, keys...)
	if n <= 4 {
		// factorial number system
		avail := append([]string{}, src...)
		f := factorial(n)
		for i := 0; i < n; i++ {
			f /= (n - i)
			j := k / f
			k %= f
			keys[i] = avail[j]
			avail = append(avail[:j], avail[j+1:]...)
		}
		return
	}
	rot, rev := k%n, k >= n
	for i := 0; i < n; i++ {
		j := (i + rot) % n
		if rev {
			j = (n - 1 - i + rot) % n
		}
		keys[i] = src[j]
	}
}

func orders(n int) int {
	if n < 2 {
		return 1
	}
	if n <= 4 {
		return factorial(n)
	}
	return 2 * n
}

func hookMapKeys(keys []string) {
	wd := w
	if wd == nil || wd.dead || !wd.opt.MapChoices || len(keys) < 2 {
		return
	}
	if wd.cur < 0 && !wd.sequential {
		return
	}
	k := wd.choose(KMapOrder, orders(len(keys)), 1, fmt.Sprintf("range over map with %d keys", len(keys)))
	permute(keys, k)
}

var hooks = &shim.Hooks{Point: hookPoint, Lock: hookLock, Unlock: hookUnlock, PoolGet: hookPoolGet, PoolPut: hookPoolPut, MapKeys: hookMapKeys}

// Install installs the hooks for the life of the process (sequential mode when no execution
// is running: locks and pools behave deterministically, Points are no-ops).
func Install() { shim.H = hooks }

// ResetPools empties every pool the explorer has seen.
func ResetPools() {
	for p := range knownPools {
		p.Items = nil
	}
}

// Run executes the thread bodies under the scheduler following prefix, then default choices.
// If sequentialChoices is set and there is exactly one thread, the body runs on the caller's
// goroutine with environment choices enabled (E-HIST mode).
func Run(opt Options, prefix []int, bodies []func()) *Exec {
	x := &Exec{Panics: make([]string, len(bodies))}
	wd := &world{opt: opt, cur: -1, yield: make(chan int), prefix: prefix, x: x}
	if opt.MaxSteps == 0 {
		wd.opt.MaxSteps = 1000000
	}
	w = wd
	defer func() { w = nil }()
	for i, fn := range bodies {
		t := &thread{id: i, fn: fn, wake: make(chan bool)}
		wd.threads = append(wd.threads, t)
		go func(t *thread) {
			defer func() {
				if r := recover(); r != nil {
					t.panic = fmt.Sprint(r)
				}
				t.state = tDone
				wd.yield <- t.id
			}()
			if !<-t.wake {
				runtime.Goexit()
			}
			t.fn()
		}(t)
	}
	running := -1
	for {
		var enabled []int
		if running >= 0 && wd.threads[running].state == tReady {
			enabled = append(enabled, running)
		}
		unfinished := 0
		for _, t := range wd.threads {
			if t.state != tDone {
				unfinished++
			}
			if t.state == tReady && t.id != running {
				enabled = append(enabled, t.id)
			}
		}
		if unfinished == 0 {
			break
		}
		if wd.dead || len(enabled) == 0 {
			if !wd.dead {
				x.Deadlock = true
			}
			// kill every parked thread
			wd.dead = true
			for _, t := range wd.threads {
				if t.state != tDone {
					t.wake <- false
					<-wd.yield
				}
			}
			break
		}
		next := enabled[0]
		if len(enabled) > 1 {
			cost := 0
			if running >= 0 && wd.threads[running].state == tReady {
				cost = 1 // switching away from a runnable thread is a preemption
			}
			next = enabled[wd.choose(KSched, len(enabled), cost, "schedule")]
		}
		running = next
		wd.cur = next
		wd.threads[next].wake <- true
		<-wd.yield
		wd.cur = -1
	}
	for i, t := range wd.threads {
		x.Panics[i] = t.panic
	}
	return x
}

// RunSequential runs one body on the caller's goroutine with environment choices (pool
// answers, map orders) enumerated: the E-HIST mode.
func RunSequential(opt Options, prefix []int, body func()) (x *Exec, panicMsg string) {
	x = &Exec{Panics: make([]string, 1)}
	wd := &world{opt: opt, cur: -1, prefix: prefix, x: x, sequential: true}
	w = wd
	defer func() {
		w = nil
		if r := recover(); r != nil {
			panicMsg = fmt.Sprint(r)
			x.Panics[0] = panicMsg
		}
	}()
	body()
	return x, ""
}

// Cost returns the deviation cost of the first n choices of an execution.
func (x *Exec) Cost(n int) int {
	c := 0
	for i := 0; i < n && i < len(x.Choices); i++ {
		if x.Choices[i] != 0 {
			c += x.Points[i].AltCost
		}
	}
	return c
}

// Stats summarises an exploration.
type Stats struct {
	Execs        int
	MaxPoints    int
	MaxSteps     int
	BoundDone    int
	ExecsAtBound []int
	Capped       bool
	Deadlocks    int
	Diverged     string
}

// Explore enumerates every execution whose deviation cost is at most bound, depth first.
// run must build fresh objects and execute following the given prefix; visit is called for
// every execution and returns false to stop early.
func Explore(bound, maxExecs int, run func(prefix []int) *Exec, visit func(x *Exec) bool) Stats {
	st := Stats{BoundDone: -1}
	stack := [][]int{{}}
	for len(stack) > 0 {
		prefix := stack[len(stack)-1]
		stack = stack[:len(stack)-1]
		if maxExecs > 0 && st.Execs >= maxExecs {
			st.Capped = true
			return st
		}
		x := run(prefix)
		st.Execs++
		if x.Diverged != "" {
			st.Diverged = x.Diverged
			return st
		}
		if len(x.Points) > st.MaxPoints {
			st.MaxPoints = len(x.Points)
		}
		if x.Steps > st.MaxSteps {
			st.MaxSteps = x.Steps
		}
		if x.Deadlock {
			st.Deadlocks++
		}
		if !visit(x) {
			return st
		}
		for i := len(x.Points) - 1; i >= len(prefix); i-- {
			p := x.Points[i]
			base := x.Cost(i)
			if base+p.AltCost > bound {
				continue
			}
			for alt := p.N - 1; alt >= 1; alt-- {
				np := make([]int, i+1)
				copy(np, x.Choices[:i])
				np[i] = alt
				stack = append(stack, np)
			}
		}
	}
	st.BoundDone = bound
	return st
}
