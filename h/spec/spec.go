// Package spec is the reference model: a direct transcription of the property statements
// (DESIGN.md Appendix A). It works on the AST only and never calls the library.
package spec

import (
	"encoding/json"
	"fmt"
	"math/big"
	"reflect"
	"regexp"
	"sort"

	"verif/h/gen"
)

// LocKind says where a node lives.
type LocKind int

const (
	LRoot LocKind = iota
	LMember
	LElem
	LComputed
)

// Loc is a location in the document.
type Loc struct {
	Kind LocKind
	M    map[string]interface{}
	K    string
	S    []interface{}
	I    int
}

// Node is a selected value with its location.
type Node struct {
	V   interface{}
	Loc Loc
}

// FailKind classifies a branch failure.
type FailKind int

const (
	FNotExist FailKind = iota
	FType
	FFunc
)

// Fail is one branch failure at a position of the outer chain.
type Fail struct {
	Pos      int
	Kind     FailKind
	Expected string
	Found    string
	FuncErr  string
}

// Call is one recorded user-function call.
type Call struct {
	Name string
	Arg  interface{}
}

// Funcs is the function environment of the model.
type Funcs struct {
	Filter    map[string]func(interface{}) (interface{}, error)
	Aggregate map[string]func([]interface{}) (interface{}, error)
	Log       *[]Call // if non-nil every call is recorded
}

// Outcome is the model's verdict for one (path, document).
type Outcome struct {
	Nodes  []Node
	Fails  []Fail
	Unspec bool // the properties leave this case open; do not compare
}

// Values returns the selected values.
func (o *Outcome) Values() []interface{} {
	vs := make([]interface{}, len(o.Nodes))
	for i := range o.Nodes {
		vs[i] = o.Nodes[i].V
	}
	return vs
}

// TypeName is the name the library reports for a found value.
func TypeName(v interface{}) string {
	if v == nil {
		return "null"
	}
	return reflect.TypeOf(v).String()
}

type evaluator struct {
	root   interface{}
	funcs  *Funcs
	unspec bool
}

// Eval evaluates a path on a document.
func Eval(p *gen.Path, doc interface{}, funcs *Funcs) Outcome {
	ev := &evaluator{root: doc, funcs: funcs}
	nodes, fails := ev.path(p, doc, 0)
	return Outcome{Nodes: nodes, Fails: fails, Unspec: ev.unspec}
}

// State is a model state along a path prefix (for trie evaluation).
type State struct {
	Nodes []Node
	Fails []Fail
	Pos   int // next position index
}

// Start returns the initial state for a document.
func Start(doc interface{}) State {
	return State{Nodes: []Node{{V: doc, Loc: Loc{Kind: LRoot}}}}
}

// Stepper applies steps one at a time (model transitions).
type Stepper struct {
	ev *evaluator
}

// NewStepper creates a stepper for a document.
func NewStepper(doc interface{}, funcs *Funcs) *Stepper {
	return &Stepper{ev: &evaluator{root: doc, funcs: funcs}}
}

// Step applies one navigation step to a state; unspec reports an open case.
func (s *Stepper) Step(st State, step *gen.Step) (out State, unspec bool) {
	s.ev.unspec = false
	nodes, fails, npos := s.ev.step(step, st.Nodes, st.Pos)
	out = State{Nodes: nodes, Fails: append(append([]Fail{}, st.Fails...), fails...), Pos: npos}
	return out, s.ev.unspec
}

// Finish applies trailing functions and produces the outcome.
func (s *Stepper) Finish(st State, p *gen.Path) Outcome {
	s.ev.unspec = false
	nodes, fails := s.ev.funcsApply(p, st.Nodes, st.Pos)
	return Outcome{Nodes: nodes, Fails: append(append([]Fail{}, st.Fails...), fails...), Unspec: s.ev.unspec}
}

// path evaluates a path starting at cur ('@') or the document root ('$').
func (ev *evaluator) path(p *gen.Path, cur interface{}, pos int) ([]Node, []Fail) {
	var start Node
	if p.Root == '$' {
		start = Node{V: ev.root, Loc: Loc{Kind: LRoot}}
	} else {
		start = Node{V: cur, Loc: Loc{Kind: LRoot}}
	}
	nodes := []Node{start}
	var fails []Fail
	for i := range p.Steps {
		var f []Fail
		nodes, f, pos = ev.step(&p.Steps[i], nodes, pos)
		fails = append(fails, f...)
	}
	n2, f2 := ev.funcsApply(p, nodes, pos)
	return n2, append(fails, f2...)
}

// funcsApply applies trailing functions. Filter functions map over the nodes; an aggregate
// consumes the whole sequence selected since the start of the chain or the previous aggregate.
func (ev *evaluator) funcsApply(p *gen.Path, nodes []Node, pos int) ([]Node, []Fail) {
	var fails []Fail
	// singleValued tracks whether the chain since its start / the previous aggregate is
	// syntactically single-valued.
	single := p.SingleValued()
	for _, name := range p.Funcs {
		if ff, ok := ev.funcs.Filter[name]; ok {
			var out []Node
			for _, n := range nodes {
				if ev.funcs.Log != nil {
					*ev.funcs.Log = append(*ev.funcs.Log, Call{name, n.V})
				}
				v, err := ff(n.V)
				if err != nil {
					fails = append(fails, Fail{Pos: pos, Kind: FFunc, FuncErr: err.Error()})
					continue
				}
				out = append(out, Node{V: v, Loc: Loc{Kind: LComputed}})
			}
			nodes = out
		} else if af, ok := ev.funcs.Aggregate[name]; ok {
			if len(nodes) > 0 {
				args := make([]interface{}, len(nodes))
				for i, n := range nodes {
					args[i] = n.V
				}
				if single {
					if arr, ok := nodes[0].V.([]interface{}); ok {
						args = arr
					}
				}
				if ev.funcs.Log != nil {
					*ev.funcs.Log = append(*ev.funcs.Log, Call{name, append([]interface{}{}, args...)})
				}
				v, err := af(args)
				if err != nil {
					fails = append(fails, Fail{Pos: pos, Kind: FFunc, FuncErr: err.Error()})
					nodes = nil
				} else {
					nodes = []Node{{V: v, Loc: Loc{Kind: LComputed}}}
				}
			}
			single = true
		} else {
			panic("spec: unknown function " + name)
		}
		pos++
	}
	return nodes, fails
}

func containerKind(v interface{}) int {
	switch v.(type) {
	case map[string]interface{}:
		return 1
	case []interface{}:
		return 2
	}
	return 0
}

// step applies one navigation step to every node in order.
func (ev *evaluator) step(s *gen.Step, in []Node, pos int) (out []Node, fails []Fail, npos int) {
	if s.Kind == gen.KRec {
		npos = pos + 2
		for _, n := range in {
			if containerKind(n.V) == 0 {
				fails = append(fails, Fail{Pos: pos, Kind: FType, Expected: "object/array", Found: TypeName(n.V)})
				continue
			}
			var conts []Node
			listContainers(n, &conts)
			before := len(out)
			for _, c := range conts {
				if !recAccepts(s.Inner, c.V) {
					continue
				}
				o, f := ev.apply(s.Inner, c, pos+1)
				out = append(out, o...)
				fails = append(fails, f...)
			}
			if len(out) == before {
				fails = append(fails, Fail{Pos: pos, Kind: FNotExist})
			}
		}
		return
	}
	npos = pos + 1
	for _, n := range in {
		o, f := ev.apply(s, n, pos)
		out = append(out, o...)
		fails = append(fails, f...)
	}
	return
}

// listContainers lists n and every descendant container in pre-order.
func listContainers(n Node, out *[]Node) {
	switch t := n.V.(type) {
	case map[string]interface{}:
		*out = append(*out, n)
		for _, k := range gen.SortedKeys(t) {
			listContainers(Node{V: t[k], Loc: Loc{Kind: LMember, M: t, K: k}}, out)
		}
	case []interface{}:
		*out = append(*out, n)
		for i := range t {
			listContainers(Node{V: t[i], Loc: Loc{Kind: LElem, S: t, I: i}}, out)
		}
	}
}

func recAccepts(inner *gen.Step, v interface{}) bool {
	ck := containerKind(v)
	switch inner.Kind {
	case gen.KName:
		return ck == 1
	case gen.KUnion:
		return ck == 2
	}
	return ck != 0
}

func allWild(items []gen.MultiItem) bool {
	for _, it := range items {
		if !it.Wild {
			return false
		}
	}
	return true
}

// apply applies a non-recursive step to one node.
func (ev *evaluator) apply(s *gen.Step, n Node, pos int) (out []Node, fails []Fail) {
	fail := func(k FailKind, exp string) {
		f := Fail{Pos: pos, Kind: k}
		if k == FType {
			f.Expected = exp
			f.Found = TypeName(n.V)
		}
		fails = append(fails, f)
	}
	switch s.Kind {
	case gen.KName:
		m, ok := n.V.(map[string]interface{})
		if !ok {
			fail(FType, "object")
			return
		}
		v, ok := m[s.Name]
		if !ok {
			fail(FNotExist, "")
			return
		}
		out = append(out, Node{V: v, Loc: Loc{Kind: LMember, M: m, K: s.Name}})
	case gen.KMulti:
		if allWild(s.Items) {
			if arr, ok := n.V.([]interface{}); ok {
				for range s.Items {
					for i := range arr {
						out = append(out, Node{V: arr[i], Loc: Loc{Kind: LElem, S: arr, I: i}})
					}
				}
				if len(out) == 0 {
					fail(FNotExist, "")
				}
				return
			}
		}
		m, ok := n.V.(map[string]interface{})
		if !ok {
			fail(FType, "object")
			return
		}
		for _, it := range s.Items {
			if it.Wild {
				for _, k := range gen.SortedKeys(m) {
					out = append(out, Node{V: m[k], Loc: Loc{Kind: LMember, M: m, K: k}})
				}
			} else if v, ok := m[it.Name]; ok {
				out = append(out, Node{V: v, Loc: Loc{Kind: LMember, M: m, K: it.Name}})
			}
		}
		if len(out) == 0 {
			fail(FNotExist, "")
		}
	case gen.KWild:
		switch t := n.V.(type) {
		case map[string]interface{}:
			for _, k := range gen.SortedKeys(t) {
				out = append(out, Node{V: t[k], Loc: Loc{Kind: LMember, M: t, K: k}})
			}
		case []interface{}:
			for i := range t {
				out = append(out, Node{V: t[i], Loc: Loc{Kind: LElem, S: t, I: i}})
			}
		default:
			fail(FType, "object/array")
			return
		}
		if len(out) == 0 {
			fail(FNotExist, "")
		}
	case gen.KUnion:
		arr, ok := n.V.([]interface{})
		if !ok {
			fail(FType, "array")
			return
		}
		for i := range s.Subs {
			for _, ix := range SubIndexes(&s.Subs[i], len(arr)) {
				out = append(out, Node{V: arr[ix], Loc: Loc{Kind: LElem, S: arr, I: ix}})
			}
		}
		if len(out) == 0 {
			fail(FNotExist, "")
		}
	case gen.KFilter:
		var members []Node
		switch t := n.V.(type) {
		case map[string]interface{}:
			for _, k := range gen.SortedKeys(t) {
				members = append(members, Node{V: t[k], Loc: Loc{Kind: LMember, M: t, K: k}})
			}
		case []interface{}:
			for i := range t {
				members = append(members, Node{V: t[i], Loc: Loc{Kind: LElem, S: t, I: i}})
			}
		default:
			fail(FType, "object/array")
			return
		}
		vals := make([]interface{}, len(members))
		for i := range members {
			vals[i] = members[i].V
		}
		verdicts := ev.query(s.Q, vals)
		for i, m := range members {
			if verdicts[i] == tTrue {
				out = append(out, m)
			} else if verdicts[i] == tUnknown {
				ev.unspec = true
			}
		}
		if len(out) == 0 {
			fail(FNotExist, "")
		}
	default:
		panic("spec: bad step kind")
	}
	return
}

// SubIndexes returns the indices a subscript selects on an array of length n, in order.
func SubIndexes(s *gen.Sub, n int) []int {
	switch s.Kind {
	case gen.SStar:
		r := make([]int, n)
		for i := range r {
			r[i] = i
		}
		return r
	case gen.SIndex:
		ix := s.N.V
		if ix < 0 {
			ix += int64(n)
		}
		if ix < 0 || ix >= int64(n) {
			return nil
		}
		return []int{int(ix)}
	case gen.SSlice:
		return PySlice(s.Start, s.End, s.St, n)
	}
	return nil
}

// PySlice computes the indices of Python's range(n)[start:end:step] with arbitrary-precision
// arithmetic (CPython's PySlice_AdjustIndices); step 0 selects nothing.
func PySlice(start, end, step gen.Num, n int) []int {
	st := big.NewInt(1)
	if !step.Omitted {
		st = big.NewInt(step.V)
	}
	if st.Sign() == 0 {
		return nil
	}
	N := big.NewInt(int64(n))
	zero := big.NewInt(0)
	minus1 := big.NewInt(-1)
	adj := func(v gen.Num, defPos, defNeg *big.Int) *big.Int {
		if v.Omitted {
			if st.Sign() > 0 {
				return defPos
			}
			return defNeg
		}
		x := big.NewInt(v.V)
		if x.Sign() < 0 {
			x.Add(x, N)
			if x.Sign() < 0 {
				if st.Sign() < 0 {
					return new(big.Int).Set(minus1)
				}
				return new(big.Int).Set(zero)
			}
		} else if x.Cmp(N) >= 0 {
			if st.Sign() < 0 {
				return new(big.Int).Sub(N, big.NewInt(1))
			}
			return new(big.Int).Set(N)
		}
		return x
	}
	lo := adj(start, new(big.Int).Set(zero), new(big.Int).Sub(N, big.NewInt(1)))
	hi := adj(end, new(big.Int).Set(N), new(big.Int).Set(minus1))
	var out []int
	i := new(big.Int).Set(lo)
	for {
		if st.Sign() > 0 && i.Cmp(hi) >= 0 {
			break
		}
		if st.Sign() < 0 && i.Cmp(hi) <= 0 {
			break
		}
		out = append(out, int(i.Int64()))
		i.Add(i, st)
	}
	return out
}

// three-valued verdicts
type tv int8

const (
	tFalse tv = iota
	tTrue
	tUnknown
)

func tvOf(b bool) tv {
	if b {
		return tTrue
	}
	return tFalse
}

// operand value: present/absent
type opv struct {
	present bool
	v       interface{}
}

// operandValue evaluates a path operand for one member.
func (ev *evaluator) operandValue(p *gen.Path, member interface{}) (opv, int) {
	nodes, _ := ev.path(p, member, 0)
	if len(nodes) == 0 {
		return opv{}, 0
	}
	return opv{present: true, v: nodes[0].V}, len(nodes)
}

func numVal(v interface{}) (float64, bool) {
	switch t := v.(type) {
	case float64:
		return t, true
	case json.Number:
		f, _ := t.Float64()
		return f, true
	}
	return 0, false
}

func litValue(l *gen.Literal) interface{} {
	switch l.Kind {
	case gen.LNum:
		return l.Num
	case gen.LStr:
		return l.Str
	case gen.LBool:
		return l.Bool
	}
	return nil
}

// litEq: type-strict equality of a present value with a literal.
func litEq(v interface{}, l *gen.Literal) bool {
	switch l.Kind {
	case gen.LNum:
		f, ok := numVal(v)
		return ok && f == l.Num
	case gen.LStr:
		s, ok := v.(string)
		return ok && s == l.Str
	case gen.LBool:
		b, ok := v.(bool)
		return ok && b == l.Bool
	case gen.LNull:
		return v == nil
	}
	return false
}

func cmpNum(op string, a, b float64) bool {
	switch op {
	case "<":
		return a < b
	case "<=":
		return a <= b
	case ">":
		return a > b
	case ">=":
		return a >= b
	}
	panic("spec: bad op " + op)
}

// query evaluates a filter expression for every member of one container.
func (ev *evaluator) query(q *gen.Query, members []interface{}) []tv {
	n := len(members)
	out := make([]tv, n)
	switch q.Kind {
	case gen.QParen:
		return ev.query(q.A, members)
	case gen.QAnd, gen.QOr:
		a := ev.query(q.A, members)
		b := ev.query(q.B, members)
		for i := range out {
			if q.Kind == gen.QAnd {
				switch {
				case a[i] == tFalse || b[i] == tFalse:
					out[i] = tFalse
				case a[i] == tTrue && b[i] == tTrue:
					out[i] = tTrue
				default:
					out[i] = tUnknown
				}
			} else {
				switch {
				case a[i] == tTrue || b[i] == tTrue:
					out[i] = tTrue
				case a[i] == tFalse && b[i] == tFalse:
					out[i] = tFalse
				default:
					out[i] = tUnknown
				}
			}
		}
		return out
	case gen.QExists:
		if q.P.Root == '$' {
			// same for every member; evaluated once
			v, _ := ev.operandValue(q.P, nil)
			for i := range out {
				out[i] = tvOf(v.present != q.Not)
			}
			return out
		}
		for i, m := range members {
			v, _ := ev.operandValue(q.P, m)
			out[i] = tvOf(v.present != q.Not)
		}
		return out
	case gen.QRegex:
		re := regexp.MustCompile(q.Re)
		vals := ev.operandList(&gen.Operand{P: q.P}, members)
		for i := range out {
			s, ok := vals[i].v.(string)
			out[i] = tvOf(vals[i].present && ok && re.MatchString(s))
		}
		return out
	case gen.QCmp:
		l := ev.operandList(q.L, members)
		r := ev.operandList(q.R, members)
		switch q.Op {
		case "==", "!=":
			eq := ev.equality(q, l, r)
			if q.Op == "!=" {
				for i := range eq {
					switch eq[i] {
					case tTrue:
						eq[i] = tFalse
					case tFalse:
						eq[i] = tTrue
					}
				}
			}
			return eq
		default:
			for i := range out {
				a, aok := numVal(l[i].v)
				b, bok := numVal(r[i].v)
				out[i] = tvOf(l[i].present && r[i].present && aok && bok && cmpNum(q.Op, a, b))
			}
			return out
		}
	}
	panic("spec: bad query kind")
}

// operandList evaluates an operand for every member ('$' paths and literals once).
func (ev *evaluator) operandList(o *gen.Operand, members []interface{}) []opv {
	out := make([]opv, len(members))
	if o.Lit != nil {
		for i := range out {
			out[i] = opv{present: true, v: litValue(o.Lit)}
		}
		return out
	}
	if o.P.Root == '$' {
		v, _ := ev.operandValue(o.P, nil)
		for i := range out {
			out[i] = v
		}
		return out
	}
	for i, m := range members {
		out[i], _ = ev.operandValue(o.P, m)
	}
	return out
}

// equality implements `x == y` (Appendix A.3).
func (ev *evaluator) equality(q *gen.Query, l, r []opv) []tv {
	out := make([]tv, len(l))
	switch {
	case q.L.Lit != nil && q.R.Lit != nil:
		eq := litEq(litValue(q.L.Lit), q.R.Lit)
		for i := range out {
			out[i] = tvOf(eq)
		}
	case q.L.Lit != nil || q.R.Lit != nil:
		lit, vals := q.R.Lit, l
		if q.L.Lit != nil {
			lit, vals = q.L.Lit, r
		}
		for i := range out {
			out[i] = tvOf(vals[i].present && litEq(vals[i].v, lit))
		}
	default:
		// path vs path
		anyPresent := false // some member has an operand present on either side
		for i := range out {
			if l[i].present || r[i].present {
				anyPresent = true
			}
		}
		for i := range out {
			switch {
			case l[i].present && r[i].present:
				out[i] = tvOf(reflect.DeepEqual(l[i].v, r[i].v))
			case l[i].present != r[i].present:
				out[i] = tFalse
			default: // both absent
				if anyPresent {
					out[i] = tUnknown
				} else {
					out[i] = tTrue
				}
			}
		}
	}
	return out
}

// Candidates returns the failures the library may report for a failed retrieval: those at the
// deepest failing position, restricted to non-type failures if there is any.
func Candidates(fails []Fail) []Fail {
	max := -1
	for _, f := range fails {
		if f.Pos > max {
			max = f.Pos
		}
	}
	var at, nonType []Fail
	for _, f := range fails {
		if f.Pos == max {
			at = append(at, f)
			if f.Kind != FType {
				nonType = append(nonType, f)
			}
		}
	}
	if len(nonType) > 0 {
		return nonType
	}
	return at
}

// Message renders the error text the library produces for a failure at a position whose
// text-as-written is given.
func (f Fail) Message(text string) (typ, msg string) {
	switch f.Kind {
	case FNotExist:
		return "ErrorMemberNotExist", fmt.Sprintf("member did not exist (path=%s)", text)
	case FType:
		return "ErrorTypeUnmatched", fmt.Sprintf("type unmatched (expected=%s, found=%s, path=%s)", f.Expected, f.Found, text)
	default:
		return "ErrorFunctionFailed", fmt.Sprintf("function failed (function=%s, error=%s)", text, f.FuncErr)
	}
}

// CandidateMessages renders the distinct (type,message) pairs of the candidate set.
func CandidateMessages(fails []Fail, pos []string) [][2]string {
	seen := map[[2]string]bool{}
	var out [][2]string
	for _, f := range Candidates(fails) {
		text := "?"
		if f.Pos >= 0 && f.Pos < len(pos) {
			text = pos[f.Pos]
		}
		t, m := f.Message(text)
		k := [2]string{t, m}
		if !seen[k] {
			seen[k] = true
			out = append(out, k)
		}
	}
	sort.Slice(out, func(i, j int) bool { return out[i][1] < out[j][1] })
	return out
}
