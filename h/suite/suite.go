// Package suite replays the repository's own pinned expectations through the reference model
// (never through the library): every (jsonpath, inputJSON, expectedJSON | expectedErr) case of
// /repo/test_jsonpath_test.go is extracted statically with go/ast, its path is turned into the
// model's AST by the grammar interpreter + action model, and the model's verdict is compared
// with what the suite pins. This keeps the model honest independently of the checks it serves.
package suite

import (
	"encoding/json"
	"fmt"
	"go/ast"
	"go/parser"
	"go/token"
	"os"
	"reflect"
	"strconv"
	"strings"

	"verif/h/pegi"
	"verif/h/pmodel"
	"verif/h/spec"
)

// Case is one extracted test case.
type Case struct {
	Line       int
	Path       string
	Input      string
	Expected   string
	ErrType    string // "" if none
	ErrMsg     string
	Filters    map[string]string // name -> helper identifier
	Aggregates map[string]string
	UseNumber  bool
	Accessor   bool
	Skip       string // reason the case cannot be reconstructed
}

func strVal(e ast.Expr) (string, bool) {
	switch t := e.(type) {
	case *ast.BasicLit:
		if t.Kind == token.STRING {
			s, err := strconv.Unquote(t.Value)
			return s, err == nil
		}
	case *ast.BinaryExpr:
		if t.Op == token.ADD {
			a, ok1 := strVal(t.X)
			b, ok2 := strVal(t.Y)
			return a + b, ok1 && ok2
		}
	case *ast.ParenExpr:
		return strVal(t.X)
	}
	return "", false
}

func intVal(e ast.Expr) (int, bool) {
	if l, ok := e.(*ast.BasicLit); ok && l.Kind == token.INT {
		n, err := strconv.Atoi(l.Value)
		return n, err == nil
	}
	return 0, false
}

func errOf(e ast.Expr, c *Case) {
	switch t := e.(type) {
	case *ast.CallExpr:
		name := ""
		if id, ok := t.Fun.(*ast.Ident); ok {
			name = id.Name
		}
		var args []string
		for _, a := range t.Args {
			s, ok := strVal(a)
			if !ok {
				c.Skip = "non-literal error argument"
				return
			}
			args = append(args, s)
		}
		switch name {
		case "createErrorMemberNotExist":
			c.ErrType, c.ErrMsg = "ErrorMemberNotExist", fmt.Sprintf("member did not exist (path=%s)", args[0])
		case "createErrorTypeUnmatched":
			c.ErrType, c.ErrMsg = "ErrorTypeUnmatched", fmt.Sprintf("type unmatched (expected=%s, found=%s, path=%s)", args[1], args[2], args[0])
		case "createErrorFunctionFailed":
			c.ErrType, c.ErrMsg = "ErrorFunctionFailed", fmt.Sprintf("function failed (function=%s, error=%s)", args[0], args[1])
		default:
			c.Skip = "unknown error constructor " + name
		}
	case *ast.CompositeLit:
		name := ""
		if id, ok := t.Type.(*ast.Ident); ok {
			name = id.Name
		}
		f := map[string]ast.Expr{}
		for _, el := range t.Elts {
			if kv, ok := el.(*ast.KeyValueExpr); ok {
				if k, ok := kv.Key.(*ast.Ident); ok {
					f[k.Name] = kv.Value
				}
			}
		}
		switch name {
		case "ErrorInvalidSyntax":
			pos, ok1 := intVal(f["position"])
			reason, ok2 := strVal(f["reason"])
			near, ok3 := strVal(f["near"])
			if !ok1 || !ok2 || !ok3 {
				c.Skip = "non-literal syntax error"
				return
			}
			c.ErrType, c.ErrMsg = name, fmt.Sprintf("invalid syntax (position=%d, reason=%s, near=%s)", pos, reason, near)
		case "ErrorFunctionNotFound":
			fn, _ := strVal(f["function"])
			c.ErrType, c.ErrMsg = name, fmt.Sprintf("function not found (function=%s)", fn)
		case "ErrorNotSupported":
			ft, _ := strVal(f["feature"])
			p, _ := strVal(f["path"])
			c.ErrType, c.ErrMsg = name, fmt.Sprintf("not supported (feature=%s, path=%s)", ft, p)
		case "ErrorInvalidArgument":
			arg, ok := strVal(f["argument"])
			if !ok {
				c.Skip = "non-literal argument"
				return
			}
			// the wrapped error is constructed in the suite; only type and argument are compared
			c.ErrType, c.ErrMsg = name, "argument="+arg
		default:
			c.Skip = "unknown error literal " + name
		}
	default:
		c.Skip = "unsupported error expression"
	}
}

func funcMap(e ast.Expr) (map[string]string, bool) {
	cl, ok := e.(*ast.CompositeLit)
	if !ok {
		return nil, false
	}
	m := map[string]string{}
	for _, el := range cl.Elts {
		kv, ok := el.(*ast.KeyValueExpr)
		if !ok {
			return nil, false
		}
		k, ok1 := strVal(kv.Key)
		id, ok2 := kv.Value.(*ast.Ident)
		if !ok1 || !ok2 {
			return nil, false
		}
		m[k] = id.Name
	}
	return m, true
}

// Extract reads the suite file.
func Extract(file string) ([]Case, error) {
	fset := token.NewFileSet()
	f, err := parser.ParseFile(fset, file, nil, 0)
	if err != nil {
		return nil, err
	}
	var out []Case
	ast.Inspect(f, func(n ast.Node) bool {
		cl, ok := n.(*ast.CompositeLit)
		if !ok {
			return true
		}
		fields := map[string]ast.Expr{}
		for _, el := range cl.Elts {
			kv, ok := el.(*ast.KeyValueExpr)
			if !ok {
				return true
			}
			k, ok := kv.Key.(*ast.Ident)
			if !ok {
				return true
			}
			fields[k.Name] = kv.Value
		}
		if fields["jsonpath"] == nil || fields["inputJSON"] == nil {
			return true
		}
		c := Case{Line: fset.Position(cl.Pos()).Line}
		var ok1, ok2 bool
		c.Path, ok1 = strVal(fields["jsonpath"])
		c.Input, ok2 = strVal(fields["inputJSON"])
		if !ok1 || !ok2 {
			c.Skip = "non-literal path or input"
		}
		if e := fields["expectedJSON"]; e != nil {
			c.Expected, _ = strVal(e)
		}
		if e := fields["expectedErr"]; e != nil {
			errOf(e, &c)
		}
		if e := fields["filters"]; e != nil {
			if m, ok := funcMap(e); ok {
				c.Filters = m
			} else {
				c.Skip = "inline filter function"
			}
		}
		if e := fields["aggregates"]; e != nil {
			if m, ok := funcMap(e); ok {
				c.Aggregates = m
			} else {
				c.Skip = "inline aggregate function"
			}
		}
		if e := fields["unmarshalFunc"]; e != nil {
			if id, ok := e.(*ast.Ident); ok && id.Name == "useJSONNumberDecoderFunction" {
				c.UseNumber = true
			} else {
				c.Skip = "custom decoder"
			}
		}
		if e := fields["accessorMode"]; e != nil {
			c.Accessor = true
		}
		if fields["resultValidator"] != nil {
			c.Skip = "custom result validator"
		}
		out = append(out, c)
		return false
	})
	return out, nil
}

// re-implementations of the suite's helper functions
var helperFilters = map[string]func(interface{}) (interface{}, error){
	"twiceFunc": func(p interface{}) (interface{}, error) {
		if f, ok := p.(float64); ok {
			return f * 2, nil
		}
		return nil, fmt.Errorf("type error")
	},
	"quarterFunc": func(p interface{}) (interface{}, error) {
		if f, ok := p.(float64); ok {
			return f / 4, nil
		}
		return nil, fmt.Errorf("type error")
	},
	"errFilterFunc": func(p interface{}) (interface{}, error) { return nil, fmt.Errorf("filter error") },
}
var helperAggregates = map[string]func([]interface{}) (interface{}, error){
	"maxFunc": func(ps []interface{}) (r interface{}, err error) {
		defer func() {
			if e := recover(); e != nil {
				err = fmt.Errorf("helper panicked: %v", e)
			}
		}()
		var m float64
		for _, v := range ps {
			if m < v.(float64) {
				m = v.(float64)
			}
		}
		return m, nil
	},
	"minFunc": func(ps []interface{}) (r interface{}, err error) {
		defer func() {
			if e := recover(); e != nil {
				err = fmt.Errorf("helper panicked: %v", e)
			}
		}()
		m := 999.0
		for _, v := range ps {
			if m > v.(float64) {
				m = v.(float64)
			}
		}
		return m, nil
	},
	"errAggregateFunc": func(ps []interface{}) (interface{}, error) { return nil, fmt.Errorf("aggregate error") },
}

// Result summarises a replay.
type Result struct {
	Total, Skipped, Agree int
	Unspecified           int
	Disagreements         []string
	SkipReasons           map[string]int
}

func decode(text string, useNumber bool) (interface{}, error) {
	dec := json.NewDecoder(strings.NewReader(text))
	if useNumber {
		dec.UseNumber()
	}
	var v interface{}
	err := dec.Decode(&v)
	return v, err
}

func canon(v interface{}) string {
	b, _ := json.Marshal(v)
	var x interface{}
	json.Unmarshal(b, &x)
	b, _ = json.Marshal(x)
	return string(b)
}

// Replay runs the model on every case.
func Replay(repoDir string) (*Result, error) {
	cases, err := Extract(repoDir + "/test_jsonpath_test.go")
	if err != nil {
		return nil, err
	}
	src, err := os.ReadFile(repoDir + "/jsonpath.peg")
	if err != nil {
		return nil, err
	}
	g, err := pegi.Load(string(src))
	if err != nil {
		return nil, err
	}
	pm := pmodel.New(g)
	res := &Result{SkipReasons: map[string]int{}}
	if pm.Degraded {
		return nil, fmt.Errorf("action model degraded: %d unknown actions", len(pm.Unknown))
	}
	for _, c := range cases {
		res.Total++
		skip := c.Skip
		funcs := &spec.Funcs{Filter: map[string]func(interface{}) (interface{}, error){}, Aggregate: map[string]func([]interface{}) (interface{}, error){}}
		cfg := pmodel.Config{Filter: map[string]bool{}, Aggregate: map[string]bool{}}
		for name, id := range c.Filters {
			f, ok := helperFilters[id]
			if !ok {
				skip = "unknown helper " + id
			}
			funcs.Filter[name] = f
			cfg.Filter[name] = true
		}
		for name, id := range c.Aggregates {
			f, ok := helperAggregates[id]
			if !ok {
				skip = "unknown helper " + id
			}
			funcs.Aggregate[name] = f
			cfg.Aggregate[name] = true
		}
		if skip != "" {
			res.Skipped++
			res.SkipReasons[skip]++
			continue
		}
		note := func(format string, args ...interface{}) {
			if len(res.Disagreements) < 40 {
				res.Disagreements = append(res.Disagreements, fmt.Sprintf("line %d %q on %s: ", c.Line, c.Path, c.Input)+fmt.Sprintf(format, args...))
			}
		}
		pd := pm.Predict(c.Path, cfg)
		if pd.Stuck != "" {
			note("action model stuck: %s", pd.Stuck)
			continue
		}
		isSyntaxErr := c.ErrType == "ErrorInvalidSyntax" || c.ErrType == "ErrorFunctionNotFound" || c.ErrType == "ErrorNotSupported" || c.ErrType == "ErrorInvalidArgument"
		if isSyntaxErr {
			ok := !pd.Accept && pd.ErrType == c.ErrType
			if ok && c.ErrType == "ErrorInvalidArgument" {
				ok = strings.Contains(pd.ErrMsg, "("+c.ErrMsg+",")
			} else if ok {
				ok = pd.ErrMsg == c.ErrMsg
			}
			if ok {
				res.Agree++
			} else {
				note("suite pins %s %q; grammar model predicts accept=%v %s %q", c.ErrType, c.ErrMsg, pd.Accept, pd.ErrType, pd.ErrMsg)
			}
			continue
		}
		if !pd.Accept {
			note("suite expects the path to parse; grammar model predicts %s %q", pd.ErrType, pd.ErrMsg)
			continue
		}
		doc, err := decode(c.Input, c.UseNumber)
		if err != nil {
			res.Skipped++
			res.SkipReasons["undecodable input"]++
			continue
		}
		out := spec.Eval(pd.AST, doc, funcs)
		if out.Unspec {
			res.Unspecified++
			continue
		}
		if c.ErrType != "" {
			if len(out.Nodes) > 0 {
				note("suite pins %s; model selects %s", c.ErrMsg, canon(out.Values()))
				continue
			}
			// position texts: not available from the model's front end (the AST is built from the
			// text), so compare error type and the non-text parts through the candidate kinds
			found := false
			for _, f := range spec.Candidates(out.Fails) {
				typ, _ := f.Message("")
				if typ != c.ErrType {
					continue
				}
				switch f.Kind {
				case spec.FType:
					if strings.Contains(c.ErrMsg, "expected="+f.Expected+", found="+f.Found+",") {
						found = true
					}
				case spec.FFunc:
					if strings.HasSuffix(c.ErrMsg, "error="+f.FuncErr+")") {
						found = true
					}
				default:
					found = true
				}
			}
			if found {
				res.Agree++
			} else {
				var cands []string
				for _, f := range spec.Candidates(out.Fails) {
					t, m := f.Message("<step>")
					cands = append(cands, t+":"+m)
				}
				note("suite pins %q; model's candidates at the deepest failing step: %v", c.ErrMsg, cands)
			}
			continue
		}
		if len(out.Nodes) == 0 {
			note("suite expects %s; model selects nothing", c.Expected)
			continue
		}
		var want interface{}
		if err := json.Unmarshal([]byte(c.Expected), &want); err != nil {
			res.Skipped++
			res.SkipReasons["undecodable expectation"]++
			continue
		}
		got := out.Values()
		var gotAny interface{}
		json.Unmarshal([]byte(canon(got)), &gotAny)
		if reflect.DeepEqual(gotAny, want) {
			res.Agree++
		} else {
			note("suite expects %s; model selects %s", c.Expected, canon(got))
		}
	}
	return res, nil
}
