package suite

import (
	"fmt"
	"testing"
)

// TestModelAgreesWithSuite: the reference model must reproduce every pinned expectation it can
// reconstruct. A disagreement is a bug of the model (or a documented open case), never a
// property violation.
func TestModelAgreesWithSuite(t *testing.T) {
	r, err := Replay("/repo")
	if err != nil {
		t.Fatal(err)
	}
	fmt.Printf("suite replay: total=%d agree=%d skipped=%d unspecified=%d disagreements=%d skip reasons=%v\n", r.Total, r.Agree, r.Skipped, r.Unspecified, len(r.Disagreements), r.SkipReasons)
	for _, d := range r.Disagreements {
		t.Error(d)
	}
}
