package gen

import "strings"

// Shape is a compact construct signature of a path: it names step kinds, not values, so that
// all inputs exercising the same construct share a signature.
func Shape(p *Path) string {
	var sb strings.Builder
	sb.WriteByte(p.Root)
	for i := range p.Steps {
		sb.WriteByte(' ')
		sb.WriteString(StepShape(&p.Steps[i]))
	}
	for _, f := range p.Funcs {
		sb.WriteString(" ." + strings.TrimRight(f, "0123456789") + "()")
	}
	return sb.String()
}

// StepShape is the signature of one step.
func StepShape(s *Step) string {
	switch s.Kind {
	case KName:
		return "name"
	case KWild:
		return "*"
	case KMulti:
		w, n := 0, 0
		for _, it := range s.Items {
			if it.Wild {
				w++
			} else {
				n++
			}
		}
		switch {
		case n == 0:
			return "multi(all*)"
		case w > 0:
			return "multi(name,*)"
		}
		return "multi(names)"
	case KRec:
		return "..(" + StepShape(s.Inner) + ")"
	case KUnion:
		if len(s.Subs) == 1 {
			switch s.Subs[0].Kind {
			case SIndex:
				return "index"
			case SSlice:
				return "slice"
			case SStar:
				return "[*]"
			}
		}
		return "union"
	case KFilter:
		return "?(" + QueryShape(s.Q) + ")"
	}
	return "?"
}

func operandShape(o *Operand) string {
	if o.Lit != nil {
		return [...]string{"num", "str", "bool", "null"}[o.Lit.Kind]
	}
	return pathOperandShape(o.P)
}

func pathOperandShape(p *Path) string {
	s := string(p.Root)
	vg := false
	for i := range p.Steps {
		if !p.Steps[i].SingleValued() {
			vg = true
		}
		if p.Steps[i].Kind == KFilter {
			s += "[?]"
		}
	}
	if vg {
		s += "*"
	}
	for _, f := range p.Funcs {
		s += "." + strings.TrimRight(f, "0123456789") + "()"
	}
	return s
}

// QueryShape is the signature of a filter expression.
func QueryShape(q *Query) string {
	switch q.Kind {
	case QExists:
		if q.Not {
			return "!" + pathOperandShape(q.P)
		}
		return pathOperandShape(q.P)
	case QCmp:
		return operandShape(q.L) + q.Op + operandShape(q.R)
	case QRegex:
		return pathOperandShape(q.P) + "=~re"
	case QAnd:
		return QueryShape(q.A) + "&&" + QueryShape(q.B)
	case QOr:
		return QueryShape(q.A) + "||" + QueryShape(q.B)
	case QParen:
		return "(" + QueryShape(q.A) + ")"
	}
	return "?"
}
