package gen

func at(steps ...Step) *Path { return P('@', steps...) }
func rt(steps ...Step) *Path { return P('$', steps...) }

// SigmaFull is the navigation step alphabet "one input per shortcut visible in the code".
func SigmaFull() []Step {
	a, b := Name("a"), Name("b")
	return []Step{
		// names, wildcard
		a, b, Wild(),
		// multi-names
		Multi("a", "b"), Multi("b", "a"), Multi("a", "a"), Multi("a", "*"), Multi("*", "*"), Multi("b", "a", "c"), Multi("a", "b", "*"),
		// recursive descent followed by each form
		Rec(a), Rec(Wild()), Rec(Multi("a", "b")), Rec(Union(Idx(0))), Rec(Union(Idx(0), Idx(1))),
		Rec(BWild()), Rec(Union(Slice2(N(0), N(2)))), Rec(Filter(Exists(at(a)))), Rec(Multi("*", "*")), Rec(Multi("a", "*")),
		// subscripts
		Union(Idx(0)), Union(Idx(1)), Union(Idx(-1)), Union(Slice2(N(0), N(2))), Union(Slice2(N(1), Om())),
		Union(Slice(Om(), Om(), N(-1))), Union(Slice(Om(), Om(), N(2))), Union(Idx(0), Idx(1)), Union(Idx(1), Idx(0)),
		Union(Idx(0), Idx(0)), Union(Idx(0), Slice2(N(1), N(2)), Star()), Union(Star(), Idx(0)), BWild(),
		// filters: existence
		Filter(Exists(at(a))), Filter(NotExists(at(a))), Filter(Exists(at(Wild()))), Filter(Exists(at(Rec(a)))),
		Filter(Exists(at(Union(Idx(0))))), Filter(Exists(rt(a))),
		// filters: comparisons
		Filter(Cmp("==", OpP(at(a)), LitNum(1))), Filter(Cmp("!=", OpP(at(a)), LitNum(1))),
		Filter(Cmp(">", OpP(at(a)), LitNum(1))), Filter(Cmp("==", OpP(at(a)), LitStr("a"))),
		Filter(Cmp("==", OpP(at(a)), LitNull())), Filter(Cmp("==", OpP(at(a)), LitBool(true))),
		Filter(Cmp("==", OpP(at(a)), OpP(rt(b)))), Filter(Cmp("==", OpP(rt(b)), OpP(at(a)))),
		Filter(Regex(at(a), "a")), Filter(Cmp("==", OpP(rt(a)), LitNum(1))),
		Filter(Cmp("!=", OpP(at(b)), OpP(rt(b)))),
		Filter(Cmp("<=", OpP(at(a)), LitNum(1))), Filter(Cmp("<=", LitNum(1), OpP(at(a)))),
		Filter(NotExists(at(a, Filter(Exists(at(b)))))),
		// the bare current node as an operand
		Filter(Cmp(">", OpP(at()), LitNum(1))), Filter(Cmp("==", OpP(at()), LitStr("a"))), Filter(Cmp("!=", LitNum(1), OpP(at()))),
		Filter(Cmp(">", OpP(at(a)), OpP(rt(b)))), Filter(Cmp("<", OpP(rt(b)), OpP(at(a)))),
		// filters: combinations
		Filter(And(Exists(at(a)), Exists(at(b)))), Filter(Or(Exists(at(a)), Exists(at(b)))),
		Filter(Or(Cmp("==", OpP(at(a)), LitNum(1)), NotExists(at(b)))),
		Filter(Or(Cmp("!=", OpP(at(a)), OpP(rt(b))), Exists(at(b)))),
		Filter(Exists(at(a, Filter(Exists(at(b)))))),
		// '$' inside a filter nested in an '@'-rooted operand still denotes the document root
		Filter(Exists(at(a, Filter(Cmp("==", OpP(at()), OpP(rt(b))))))),
		Filter(Exists(at(Filter(Exists(rt(b)))))),
	}
}

// SigmaMid is the reduced alphabet for depth 4.
func SigmaMid() []Step {
	a := Name("a")
	return []Step{
		a, Wild(), Multi("a", "b"), Multi("*", "*"),
		Rec(a), Rec(Wild()), Rec(Union(Idx(0))), Rec(Multi("a", "b")),
		Union(Idx(0)), Union(Idx(-1)), Union(Slice2(N(0), N(2))), Union(Idx(0), Idx(1)), BWild(),
		Filter(Exists(at(a))), Filter(Cmp("==", OpP(at(a)), LitNum(1))), Filter(Cmp("==", OpP(at(a)), OpP(rt(Name("b"))))),
	}
}

// SigmaSmall is the reduced alphabet for depth 5.
func SigmaSmall() []Step {
	a := Name("a")
	return []Step{
		a, Wild(), Rec(a), Rec(Wild()), Union(Idx(0)), BWild(), Multi("a", "b"), Filter(Exists(at(a))),
	}
}

// SigmaFuncFilters are filters whose operands contain user functions (C12, C14).
func SigmaFuncFilters() []Step {
	a := Name("a")
	return []Step{
		Filter(Cmp("==", OpP(at(a).F("f")), LitNum(2))),
		Filter(Cmp("==", OpP(at().F("f")), LitNum(2))),
		Filter(Cmp("==", OpP(at(Wild()).F("cnt")), LitNum(1))),
		Filter(Cmp("==", OpP(at(Multi("a", "b")).F("cnt")), LitNum(2))),
		Filter(Cmp("==", OpP(rt(a).F("f")), LitNum(2))),
		Filter(Cmp("==", OpP(rt(Multi("a", "b")).F("cnt")), LitNum(1))),
		Filter(Exists(at(a).F("id"))),
		Filter(Exists(at(Wild()).F("g"))),
		Filter(Cmp("==", OpP(at(Multi("a", "b")).F("first")), LitNum(1))),
		Filter(Exists(at(a).F("e"))),
		Filter(Cmp("==", OpP(at(Wild()).F("eg")), LitNum(1))),
		Filter(Cmp(">", OpP(at(Wild()).F("g", "cnt")), LitNum(1))),
		Filter(Cmp("==", OpP(at(Union(Idx(0))).F("f", "f")), LitNum(4))),
		// an aggregate inside an operand whose own path has a nested filter referring to '$'
		Filter(Cmp("==", OpP(at(Filter(Cmp("==", OpP(at()), OpP(rt(Name("b")))))).F("cnt")), LitNum(1))),
		Filter(Exists(at(a, Filter(Exists(rt(Name("b"))))).F("g"))),
	}
}

// ParenFilters: filters with parenthesised sub-queries that begin with a literal, a negation,
// a '$' operand or another parenthesis (C18: the blank after '(' and after '!').
func ParenFilters() []Step {
	a, b := Name("a"), Name("b")
	firsts := []*Query{
		Cmp("<", LitNum(1), OpP(at(b))), Cmp("==", LitStr("a"), OpP(at(a))), NotExists(at(a)), Exists(at(a)),
		Cmp("==", OpP(rt(b)), OpP(at(a))), Cmp("==", LitNum(1), LitNum(1)), Regex(at(a), "a"),
	}
	var out []Step
	for _, x := range firsts {
		out = append(out,
			Filter(Paren(x)),
			Filter(Paren(Paren(x))),
			Filter(And(Exists(at(b)), Paren(Or(x, Exists(at(a)))))),
			Filter(Or(Paren(And(x, Exists(at(b)))), NotExists(at(b)))),
			Filter(Exists(at(a, Filter(Paren(x))))),
		)
	}
	out = append(out, Filter(NotExists(at(a, Filter(NotExists(at(b)))))))
	return out
}

// SigmaBoundary are subscripts with integer-boundary magnitudes (C03).
func SigmaBoundary() []Step {
	const maxI, minI = int64(^uint64(0) >> 1), -int64(^uint64(0)>>1) - 1
	return []Step{
		Union(Slice(N(1), Om(), N(maxI))), Union(Slice(Om(), Om(), N(minI))), Union(Slice(N(minI), N(maxI), N(1))),
		Union(Slice(N(maxI), N(minI), N(-1))), Union(Idx(maxI)), Union(Idx(minI)), Union(Idx(1 << 31)), Union(Idx(-(1 << 31))),
		Union(Slice(N(0), N(maxI), N(maxI-1))), Union(Slice(N(-1), Om(), N(maxI))), Union(Idx(0), Slice(N(1), Om(), N(maxI))),
		Rec(Union(Slice(N(1), Om(), N(maxI)))), Union(Slice(Om(), Om(), N(0))),
	}
}

// AtomFilters: every atom of the filter alphabet and the pairwise combinations of a reduced
// set, as filter steps (used under the fixed prefix $.c on MemberDocs).
func AtomFilters(pairs bool) []Step {
	var out []Step
	for _, q := range Atoms() {
		out = append(out, Filter(q))
	}
	if pairs {
		for _, cb := range Pairs(ReducedAtoms()[:12]) {
			out = append(out, Filter(cb.Q))
		}
	}
	return out
}

// FuncSuffixes are the single trailing-function suffixes.
func FuncSuffixes() [][]string {
	return [][]string{{"f"}, {"id"}, {"g"}, {"cnt"}, {"first"}, {"e"}, {"eg"}, {"gre"}, {"fre"}, {"all"}, {"nl"}, {"box"}, {"ie"}, {"acc"}}
}

// coreSuffix: the function suffixes that are also tried after prefixes of two or more steps
// (a filter function that fails on non-numbers, identity, nil-returning, list and count
// aggregates, failing ones, the aggregate that returns its argument).
var coreSuffix = map[string]bool{"f": true, "id": true, "nl": true, "g": true, "cnt": true, "e": true, "eg": true, "all": true, "first": true}

// Ladder is a bounded set of paths: all step sequences over Alpha up to Depth, plus every
// sequence of at most FuncDepth steps followed by each suffix in Funcs.
type Ladder struct {
	Alpha     []Step
	Depth     int
	Funcs     [][]string
	FuncDepth int
	MinPrefix int                // only trie nodes with at least this many steps become units
	Modes     []int              // decodings to explore for this ladder (nil = all)
	Keep      func(p *Path) bool // optional filter on the enumerated paths
	Fixed     []Step             // steps prepended to every path of the ladder (not counted in Depth)
	CoreDocs  bool               // evaluate only on the node-bounded and wide documents (not the member documents)
	SmallDocs bool               // evaluate only on the documents of at most 4 nodes
}

// Unit is a prefix (trie node) of a ladder; it stands for the paths prefix·x (x in Alpha)
// and, if the prefix is short enough, prefix·suffix for every function suffix.
type Unit struct {
	L      *Ladder
	Prefix []Step
}

// Units lists the trie nodes of depth < Depth, shortest first.
func (l *Ladder) Units() []Unit {
	var out []Unit
	level := [][]Step{{}}
	maxLevel := l.Depth - 1
	if len(l.Funcs) > 0 && l.FuncDepth > maxLevel {
		maxLevel = l.FuncDepth
	}
	for d := 0; d <= maxLevel; d++ {
		var next [][]Step
		for _, p := range level {
			if d >= l.MinPrefix {
				out = append(out, Unit{L: l, Prefix: p})
			}
			if d+1 <= maxLevel {
				for _, s := range l.Alpha {
					np := append(append([]Step{}, p...), s)
					next = append(next, np)
				}
			}
		}
		level = next
	}
	return out
}

// Paths lists the paths a unit stands for. The bare prefix itself (no function) is included
// only for the empty prefix; longer prefixes are covered as prefix'·x of their parent unit.
func (u Unit) Paths() []*Path {
	if len(u.L.Fixed) > 0 {
		// enumerate without the fixed prefix, then prepend it
		l2 := *u.L
		l2.Fixed = nil
		keep := l2.Keep
		l2.Keep = nil
		var out []*Path
		for _, p := range (Unit{L: &l2, Prefix: u.Prefix}).Paths() {
			if len(p.Steps) == 0 && len(p.Funcs) == 0 {
				continue
			}
			q := &Path{Root: '$', Steps: append(append([]Step{}, u.L.Fixed...), p.Steps...), Funcs: p.Funcs}
			if keep == nil || keep(q) {
				out = append(out, q)
			}
		}
		return out
	}
	var out []*Path
	if len(u.Prefix) == 0 {
		out = append(out, &Path{Root: '$'})
	}
	if len(u.Prefix) <= u.L.FuncDepth {
		for _, fs := range u.L.Funcs {
			// after two or more steps only the core suffixes (every suffix after <=1 step)
			if len(u.Prefix) >= 2 && len(fs) == 1 && !coreSuffix[fs[0]] {
				continue
			}
			out = append(out, &Path{Root: '$', Steps: u.Prefix, Funcs: fs})
		}
	}
	if len(u.Prefix) < u.L.Depth {
		for _, s := range u.L.Alpha {
			steps := append(append([]Step{}, u.Prefix...), s)
			out = append(out, &Path{Root: '$', Steps: steps})
		}
	}
	if u.L.Keep != nil {
		kept := out[:0]
		for _, p := range out {
			if u.L.Keep(p) {
				kept = append(kept, p)
			}
		}
		out = kept
	}
	return out
}

// NumPaths counts the paths of the ladder.
func (l *Ladder) NumPaths() int {
	n := 0
	for _, u := range l.Units() {
		n += len(u.Paths())
	}
	return n
}
