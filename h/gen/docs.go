package gen

import (
	"encoding/json"
	"reflect"
	"sort"
)

// DocSpec bounds a document enumeration.
type DocSpec struct {
	MaxNodes int
	Keys     []string
	Scalars  []interface{}
	MaxArr   int
}

var (
	S3  = []interface{}{float64(1), "a", nil}
	S5  = []interface{}{float64(1), float64(2), "a", true, nil}
	KAB = []string{"a", "b"}
)

// Docs enumerates every JSON value with at most MaxNodes nodes (a container counts 1 plus
// its children), objects over subsets of Keys, arrays up to MaxArr elements, leaves from
// Scalars. Order: by node count, then scalars, arrays, objects. Every call builds fresh values.
func Docs(s DocSpec) []interface{} {
	// bySize[n] = builders for all values with exactly n nodes
	type builder func() interface{}
	bySize := make([][]builder, s.MaxNodes+1)
	for _, sc := range s.Scalars {
		v := sc
		bySize[1] = append(bySize[1], func() interface{} { return v })
	}
	// sequences of k children with total size t
	var seqs func(k, t int) [][]builder
	memo := map[[2]int][][]builder{}
	seqs = func(k, t int) [][]builder {
		if k == 0 {
			if t == 0 {
				return [][]builder{{}}
			}
			return nil
		}
		key := [2]int{k, t}
		if r, ok := memo[key]; ok {
			return r
		}
		var out [][]builder
		for first := 1; first <= t-(k-1); first++ {
			for _, b := range bySize[first] {
				for _, rest := range seqs(k-1, t-first) {
					out = append(out, append([]builder{b}, rest...))
				}
			}
		}
		memo[key] = out
		return out
	}
	keysets := func(k int) [][]string {
		var out [][]string
		var rec func(start int, cur []string)
		rec = func(start int, cur []string) {
			if len(cur) == k {
				out = append(out, append([]string{}, cur...))
				return
			}
			for i := start; i < len(s.Keys); i++ {
				rec(i+1, append(cur, s.Keys[i]))
			}
		}
		rec(0, nil)
		return out
	}
	for n := 1; n <= s.MaxNodes; n++ {
		// memo depends on bySize[<n] only, safe to keep across n because seqs(k,t) uses sizes <= t < n
		for k := 0; k <= s.MaxArr && k <= n-1; k++ {
			for _, seq := range seqs(k, n-1) {
				seq := seq
				bySize[n] = append(bySize[n], func() interface{} {
					a := make([]interface{}, len(seq))
					for i, b := range seq {
						a[i] = b()
					}
					return a
				})
			}
		}
		for k := 0; k <= len(s.Keys) && k <= n-1; k++ {
			for _, ks := range keysets(k) {
				for _, seq := range seqs(k, n-1) {
					ks, seq := ks, seq
					bySize[n] = append(bySize[n], func() interface{} {
						m := make(map[string]interface{}, len(seq))
						for i, b := range seq {
							m[ks[i]] = b()
						}
						return m
					})
				}
			}
		}
	}
	var out []interface{}
	for n := 1; n <= s.MaxNodes; n++ {
		for _, b := range bySize[n] {
			out = append(out, b())
		}
	}
	return out
}

// Clone deep-copies a decoded-JSON-like value (maps and slices are copied, leaves shared).
// Sharing is preserved: a map or slice referenced from several places of the original is
// copied once and referenced from the same places of the copy.
func Clone(v interface{}) interface{} {
	return cloneWith(v, func(x interface{}) interface{} { return x })
}

// ToNumber deep-copies v replacing every float64 by the json.Number with Go's shortest
// spelling (sharing preserved).
func ToNumber(v interface{}) interface{} {
	return cloneWith(v, func(x interface{}) interface{} {
		if f, ok := x.(float64); ok {
			b, _ := json.Marshal(f)
			return json.Number(string(b))
		}
		return x
	})
}

type sliceKey struct {
	p uintptr
	n int
}

func cloneWith(v interface{}, leaf func(interface{}) interface{}) interface{} {
	maps := map[uintptr]map[string]interface{}{}
	slices := map[sliceKey][]interface{}{}
	var rec func(v interface{}) interface{}
	rec = func(v interface{}) interface{} {
		switch t := v.(type) {
		case map[string]interface{}:
			if t == nil {
				return t
			}
			p := reflect.ValueOf(t).Pointer()
			if c, ok := maps[p]; ok {
				return c
			}
			m := make(map[string]interface{}, len(t))
			maps[p] = m
			for k, x := range t {
				m[k] = rec(x)
			}
			return m
		case []interface{}:
			if t == nil {
				return t
			}
			if len(t) > 0 {
				k := sliceKey{reflect.ValueOf(t).Pointer(), len(t)}
				if c, ok := slices[k]; ok {
					return c
				}
				a := make([]interface{}, len(t))
				slices[k] = a
				for i, x := range t {
					a[i] = rec(x)
				}
				return a
			}
			return make([]interface{}, 0)
		}
		return leaf(v)
	}
	return rec(v)
}

// SortedKeys returns the keys of m in ascending byte order.
// Nodes counts the containers and leaves of a document.
func Nodes(v interface{}) int {
	n := 1
	switch t := v.(type) {
	case map[string]interface{}:
		for _, x := range t {
			n += Nodes(x)
		}
	case []interface{}:
		for _, x := range t {
			n += Nodes(x)
		}
	}
	return n
}

func SortedKeys(m map[string]interface{}) []string {
	ks := make([]string, 0, len(m))
	for k := range m {
		ks = append(ks, k)
	}
	sort.Strings(ks)
	return ks
}

// JSON renders a value for humans (best effort for non-JSON values).
func JSON(v interface{}) string {
	b, err := json.Marshal(v)
	if err != nil {
		return "<unmarshalable>"
	}
	return string(b)
}

// Relabel returns a deep copy of v where every leaf is replaced by a distinct float64
// (100, 101, ...) in pre-order with sorted keys, so that all leaves are pairwise distinct.
func Relabel(v interface{}) interface{} {
	n := 100.0
	var rec func(v interface{}) interface{}
	rec = func(v interface{}) interface{} {
		switch t := v.(type) {
		case map[string]interface{}:
			m := make(map[string]interface{}, len(t))
			for _, k := range SortedKeys(t) {
				m[k] = rec(t[k])
			}
			return m
		case []interface{}:
			a := make([]interface{}, len(t))
			for i, x := range t {
				a[i] = rec(x)
			}
			return a
		}
		n++
		return n
	}
	return rec(v)
}

// WideDocs are documents wider than the node bound allows: containers of two or three
// members that are themselves containers of two members (distinct leaves), in every
// combination of object/array at both levels, plus a few three-level ones. They give every
// step kind at least two branches at two consecutive levels.
func WideDocs() []interface{} {
	n := 0.0
	leaf := func() interface{} { n++; return n }
	inner := []func() interface{}{
		func() interface{} { return map[string]interface{}{"a": leaf(), "b": leaf()} },
		// keys that differ from the outer level's: a key buffer shared between two levels shows
		func() interface{} { return map[string]interface{}{"a": leaf(), "c": leaf()} },
		func() interface{} { return []interface{}{leaf(), leaf()} },
		func() interface{} { return leaf() },
		func() interface{} { return map[string]interface{}{"a": leaf()} },
		func() interface{} { return nil },
	}
	var out []interface{}
	for _, i1 := range inner {
		for _, i2 := range inner {
			i1, i2 := i1, i2
			n = 0
			out = append(out, map[string]interface{}{"a": i1(), "b": i2()})
			n = 0
			out = append(out, []interface{}{i1(), i2()})
		}
	}
	// three members / three levels
	n = 0
	out = append(out,
		map[string]interface{}{"a": map[string]interface{}{"a": leaf(), "b": map[string]interface{}{"a": leaf(), "b": leaf()}}, "b": map[string]interface{}{"a": leaf(), "b": map[string]interface{}{"b": leaf(), "a": leaf()}}},
		[]interface{}{[]interface{}{leaf(), []interface{}{leaf(), leaf()}}, []interface{}{leaf(), []interface{}{leaf(), leaf()}}},
		map[string]interface{}{"a": []interface{}{map[string]interface{}{"a": leaf(), "b": leaf()}, map[string]interface{}{"a": leaf(), "b": leaf()}}, "b": leaf()},
		[]interface{}{map[string]interface{}{"a": leaf(), "b": leaf()}, map[string]interface{}{"a": leaf(), "b": leaf()}, map[string]interface{}{"b": leaf()}},
		map[string]interface{}{"a": map[string]interface{}{"a": leaf(), "b": leaf(), "c": leaf()}, "b": map[string]interface{}{"a": leaf(), "b": leaf(), "c": leaf()}, "c": map[string]interface{}{"a": leaf(), "b": leaf()}},
	)
	// arrays nested directly in arrays below another container, objects at the bottom
	out = append(out,
		map[string]interface{}{"a": []interface{}{[]interface{}{map[string]interface{}{"a": 1.0}}}},
		[]interface{}{[]interface{}{[]interface{}{map[string]interface{}{"a": 1.0}, map[string]interface{}{"b": 2.0}}}},
		map[string]interface{}{"b": map[string]interface{}{"a": []interface{}{[]interface{}{map[string]interface{}{"a": 2.0}}, map[string]interface{}{"a": 3.0}}}},
	)
	// two objects whose members swap roles (a continuation that fails under the first name and
	// succeeds under the second), and lists of containers directly inside lists
	out = append(out,
		map[string]interface{}{"a": map[string]interface{}{"b": 1.0}, "b": map[string]interface{}{"a": 2.0}},
		map[string]interface{}{"a": map[string]interface{}{"a": 1.0}, "b": map[string]interface{}{"a": 2.0}},
		map[string]interface{}{"a": []interface{}{[]interface{}{map[string]interface{}{"a": 1.0}, map[string]interface{}{"a": 2.0}}, []interface{}{map[string]interface{}{"a": 3.0}}}},
		[]interface{}{[]interface{}{map[string]interface{}{"a": 1.0}, map[string]interface{}{"a": 2.0}, map[string]interface{}{"b": 3.0}}},
	)
	// arrays of longer arrays: inner index lists longer than the outer one
	nums := func(xs ...float64) []interface{} {
		var o []interface{}
		for _, x := range xs {
			o = append(o, x)
		}
		return o
	}
	out = append(out,
		[]interface{}{nums(1, 2, 3), nums(4, 5, 6)},
		[]interface{}{nums(1, 2), nums(3, 4, 5)},
		[]interface{}{nums(1, 2, 3, 4), nums(5)},
		[]interface{}{[]interface{}{nums(1, 2, 3)}, []interface{}{nums(4, 5, 6), nums(7, 8, 9)}},
		map[string]interface{}{"a": []interface{}{nums(1, 2, 3), nums(4, 5, 6)}, "b": nums(7, 8)},
	)
	// two-member arrays at the root whose members hit / miss / mistype .a and .a.b at different depths
	rootKinds := []func() interface{}{
		func() interface{} { return 7.0 },
		func() interface{} { return map[string]interface{}{"b": 1.0} },
		func() interface{} { return map[string]interface{}{"a": 1.0} },
		func() interface{} { return map[string]interface{}{"a": nil} },
		func() interface{} { return map[string]interface{}{"a": map[string]interface{}{"c": 2.0}} },
		func() interface{} { return map[string]interface{}{"a": map[string]interface{}{"b": 3.0}} },
		func() interface{} { return map[string]interface{}{"a": []interface{}{1.0}} },
		func() interface{} { return []interface{}{map[string]interface{}{"a": 1.0}} },
	}
	for _, k1 := range rootKinds {
		for _, k2 := range rootKinds {
			out = append(out, []interface{}{k1(), k2()})
		}
	}
	out = append(out, []interface{}{rootKinds[4](), rootKinds[1](), rootKinds[2]()}, []interface{}{rootKinds[5](), rootKinds[0](), rootKinds[4]()})
	// three branches whose .a.a.a chains break at three different depths (missing member or wrong
	// type), in every order: the deepest failure is first, in the middle or last
	chainKind := []func() interface{}{
		func() interface{} { return map[string]interface{}{"b": 1.0} },
		func() interface{} { return map[string]interface{}{"a": map[string]interface{}{"b": 2.0}} },
		func() interface{} {
			return map[string]interface{}{"a": map[string]interface{}{"a": map[string]interface{}{"b": 3.0}}}
		},
		func() interface{} { return 7.0 },
		func() interface{} { return map[string]interface{}{"a": "x"} },
		func() interface{} { return map[string]interface{}{"a": map[string]interface{}{"a": true}} },
	}
	perms := [][3]int{{0, 1, 2}, {0, 2, 1}, {1, 0, 2}, {1, 2, 0}, {2, 0, 1}, {2, 1, 0}}
	for _, sel := range [][3]int{{0, 1, 2}, {3, 4, 5}, {0, 4, 2}, {3, 1, 5}} {
		for _, pm := range perms {
			a, b, c := chainKind[sel[pm[0]]](), chainKind[sel[pm[1]]](), chainKind[sel[pm[2]]]()
			out = append(out, []interface{}{a, b, c})
			out = append(out, map[string]interface{}{"a": chainKind[sel[pm[0]]](), "b": chainKind[sel[pm[1]]](), "c": chainKind[sel[pm[2]]]()})
		}
	}
	// documents built in Go in which one container is referenced from several places (a decoder
	// never produces these; the properties speak about values, so sharing must not matter)
	sharedMap := map[string]interface{}{"a": 1.0, "b": 2.0}
	sharedArr := []interface{}{1.0, map[string]interface{}{"a": 2.0}}
	out = append(out,
		map[string]interface{}{"a": sharedMap, "b": sharedMap},
		[]interface{}{sharedMap, sharedMap, map[string]interface{}{"a": sharedMap}},
		map[string]interface{}{"a": sharedArr, "b": []interface{}{sharedArr}},
		[]interface{}{sharedArr, sharedArr},
	)
	return out
}

// MemberDocs are documents {"c": container, "a": ?, "b": ?} whose container members hit, miss
// or mistype the operand paths @.a / @.b / @[0] (and $.a / $.b at the root): the shapes filter
// expressions are about, larger than the node bound of Docs allows. Members of one container are
// pairwise distinct (they carry "z": position).
func MemberDocs() []interface{} {
	member := func(kind, i int) interface{} {
		z := float64(100 + i)
		switch kind {
		case 0:
			return float64(7 + i)
		case 1:
			return "s"
		case 2:
			return map[string]interface{}{"z": z}
		case 3:
			return map[string]interface{}{"a": 1.0, "z": z}
		case 4:
			return map[string]interface{}{"a": 2.0, "z": z}
		case 5:
			return map[string]interface{}{"a": "a", "z": z}
		case 6:
			return map[string]interface{}{"b": 1.0, "z": z}
		case 7:
			return map[string]interface{}{"a": 1.0, "b": 2.0, "z": z}
		case 8:
			return map[string]interface{}{"a": nil, "b": true, "z": z}
		case 9:
			return []interface{}{1.0, z}
		case 10:
			return map[string]interface{}{"a": []interface{}{1.0, 2.0}, "z": z}
		case 11:
			return map[string]interface{}{"a": map[string]interface{}{"a": 1.0}, "b": []interface{}{1.0}, "z": z}
		}
		panic("kind")
	}
	const kinds = 12
	var seqs [][]int
	for a := 0; a < kinds; a++ {
		seqs = append(seqs, []int{a})
		for b := 0; b < kinds; b++ {
			seqs = append(seqs, []int{a, b})
		}
	}
	for _, a := range []int{2, 3, 7} {
		for _, b := range []int{0, 3, 4} {
			for _, c := range []int{3, 6, 10} {
				seqs = append(seqs, []int{a, b, c})
			}
		}
	}
	roots := []map[string]interface{}{
		{},
		{"a": 1.0, "b": 2.0},
		{"a": []interface{}{1.0, 2.0}, "b": map[string]interface{}{"a": 1.0}},
	}
	var out []interface{}
	for si, seq := range seqs {
		for ri, r := range roots {
			if ri > 0 && len(seq) == 2 && si%3 != 0 {
				continue // root values for every third two-member sequence
			}
			for _, object := range []bool{false, true} {
				if object && (len(seq) == 1 || si%2 == 1) {
					continue
				}
				doc := map[string]interface{}{}
				for k, v := range r {
					doc[k] = Clone(v)
				}
				if object {
					m := map[string]interface{}{}
					for i, k := range seq {
						m[string(rune('p'+i))] = member(k, i)
					}
					doc["c"] = m
				} else {
					var arr []interface{}
					for i, k := range seq {
						arr = append(arr, member(k, i))
					}
					doc["c"] = arr
				}
				out = append(out, doc)
			}
		}
	}
	return out
}

// BigDocs: documents beyond the node bound in the other direction - containers with 9..17
// members (thresholds such as "more than 8 keys" are common in hand-written fast paths), chains
// nested 6 deep, and complete ternary trees of depth 3. Leaves are pairwise distinct numbers
// unless the shape calls for other types.
func BigDocs() []interface{} {
	letters := "abcdefghijklmnopq"
	n := 0.0
	next := func() interface{} { n++; return n }
	arr := func(k int, f func(i int) interface{}) []interface{} {
		o := make([]interface{}, k)
		for i := range o {
			o[i] = f(i)
		}
		return o
	}
	obj := func(k int, f func(i int) interface{}) map[string]interface{} {
		o := map[string]interface{}{}
		for i := 0; i < k; i++ {
			o[letters[i:i+1]] = f(i)
		}
		return o
	}
	leaf := func(int) interface{} { return next() }
	var tree func(depth int, object bool) interface{}
	tree = func(depth int, object bool) interface{} {
		if depth == 0 {
			return next()
		}
		if object {
			return obj(3, func(int) interface{} { return tree(depth-1, object) })
		}
		return arr(3, func(int) interface{} { return tree(depth-1, object) })
	}
	chain := func(depth int, wrap func(interface{}) interface{}) interface{} {
		var v interface{} = next()
		for i := 0; i < depth; i++ {
			v = wrap(v)
		}
		return v
	}
	return []interface{}{
		arr(10, leaf),
		arr(17, leaf),
		obj(10, leaf),
		obj(17, leaf),
		arr(10, func(i int) interface{} { return map[string]interface{}{"a": next(), "b": float64(i % 3)} }),
		arr(18, func(i int) interface{} {
			m := map[string]interface{}{"a": float64(i % 3)}
			if i%2 == 0 {
				m["b"] = float64(i % 5)
			}
			return m
		}),
		map[string]interface{}{"b": 1.0, "a": arr(17, func(i int) interface{} { return map[string]interface{}{"a": float64(i % 3), "b": float64(i % 2)} })},
		obj(9, func(i int) interface{} { return arr(1+i%3, leaf) }),
		chain(6, func(v interface{}) interface{} { return map[string]interface{}{"a": v} }),
		chain(6, func(v interface{}) interface{} { return []interface{}{v} }),
		map[string]interface{}{"a": []interface{}{map[string]interface{}{"a": []interface{}{map[string]interface{}{"a": []interface{}{map[string]interface{}{"b": next()}}}}}}},
		tree(3, true),
		tree(3, false),
		map[string]interface{}{"a": arr(9, leaf), "b": obj(9, leaf)},
		[]interface{}{next(), "a", nil, true, map[string]interface{}{"a": next()}, []interface{}{next()}, next(), map[string]interface{}{"b": next()}, "b"},
		[]interface{}{
			map[string]interface{}{"a": []interface{}{
				map[string]interface{}{"b": []interface{}{map[string]interface{}{"a": next()}, map[string]interface{}{"a": next()}}},
				map[string]interface{}{"b": []interface{}{map[string]interface{}{"a": next()}}}}},
			map[string]interface{}{"a": []interface{}{map[string]interface{}{"b": []interface{}{}}}},
		},
		map[string]interface{}{"a": obj(9, func(i int) interface{} { return map[string]interface{}{"a": next(), "b": obj(2, leaf)} }), "b": next()},
	}
}
