package gen

// Filter-expression enumerators (C04, C09, C10).

// OperandKinds lists the operand alphabet of comparison atoms.
func OperandKinds() []*Operand {
	return []*Operand{
		LitNum(1), LitStr("a"), LitBool(true), LitNull(),
		OpP(at(Name("a"))), OpP(at(Name("b"))), OpP(rt(Name("a"))), OpP(rt(Name("b"))),
	}
}

func isAtOperand(o *Operand) bool { return o.P != nil && o.P.Root == '@' }

// CmpAtoms lists every comparison the grammar accepts over the operand alphabet:
// ==, != over all pairs; <, <=, >, >= over number literals and paths; never two '@' operands.
func CmpAtoms() []*Query {
	var out []*Query
	ops := OperandKinds()
	for _, op := range []string{"==", "!=", "<", "<=", ">", ">="} {
		ordering := op != "==" && op != "!="
		for _, l := range ops {
			for _, r := range ops {
				if isAtOperand(l) && isAtOperand(r) {
					continue
				}
				if ordering {
					if (l.Lit != nil && l.Lit.Kind != LNum) || (r.Lit != nil && r.Lit.Kind != LNum) {
						continue
					}
				}
				out = append(out, Cmp(op, l, r))
			}
		}
	}
	return out
}

// ExistAtoms lists existence tests and their negations.
func ExistAtoms() []*Query {
	var out []*Query
	for _, p := range []*Path{at(Name("a")), at(Name("b")), at(Wild()), at(Union(Idx(0))), rt(Name("a")), rt(Name("b"))} {
		out = append(out, Exists(p), NotExists(p))
	}
	return out
}

// RegexAtoms lists regex tests.
func RegexAtoms() []*Query {
	return []*Query{Regex(at(Name("a")), "a"), Regex(rt(Name("a")), "^a$"), Regex(at(Name("b")), "[0-9]")}
}

// Atoms lists all atoms.
func Atoms() []*Query {
	out := append([]*Query{}, ExistAtoms()...)
	out = append(out, CmpAtoms()...)
	return append(out, RegexAtoms()...)
}

// ReducedAtoms is the atom subset combined pairwise with && and ||.
func ReducedAtoms() []*Query {
	a, b := at(Name("a")), at(Name("b"))
	ra, rb := rt(Name("a")), rt(Name("b"))
	return []*Query{
		Exists(a), NotExists(a), Exists(b), NotExists(b), Exists(ra), NotExists(rb),
		Cmp("==", OpP(a), LitNum(1)), Cmp("!=", OpP(a), LitNum(1)), Cmp(">", OpP(a), LitNum(1)), Cmp("<=", LitNum(1), OpP(b)),
		Cmp("==", OpP(a), LitStr("a")), Cmp("==", OpP(b), LitNull()), Cmp("!=", OpP(b), LitBool(true)),
		Cmp("==", OpP(a), OpP(rb)), Cmp("!=", OpP(a), OpP(rb)), Cmp("==", OpP(ra), OpP(b)), Cmp("!=", OpP(rb), OpP(b)),
		Cmp("==", OpP(ra), LitNum(1)), Cmp("<", OpP(ra), OpP(b)), Cmp("==", OpP(ra), OpP(rb)), Cmp("!=", OpP(ra), OpP(rb)),
		Cmp("==", LitNum(1), LitNum(1)), Cmp("<", LitNum(2), LitNum(1)),
		Regex(a, "a"),
	}
}

// TinyAtoms is the atom subset used in depth-3 combinations.
func TinyAtoms() []*Query {
	a, b := at(Name("a")), at(Name("b"))
	rb := rt(Name("b"))
	return []*Query{
		Exists(a), NotExists(b), Cmp("==", OpP(a), LitNum(1)), Cmp("!=", OpP(a), OpP(rb)), Cmp("==", OpP(b), OpP(rb)),
		Cmp(">=", OpP(b), LitNum(1)), Exists(rb), Cmp("!=", OpP(rt(Name("a"))), OpP(rb)),
	}
}

// Combo is a composite expression with the parts its selection is defined by.
type Combo struct {
	Q    *Query
	Kind QKind  // QAnd, QOr, QParen
	A, B *Query // parts (B nil for QParen)
}

// Pairs lists A&&B and A||B over the given atoms.
func Pairs(atoms []*Query) []Combo {
	var out []Combo
	for _, a := range atoms {
		for _, b := range atoms {
			out = append(out, Combo{Q: And(a, b), Kind: QAnd, A: a, B: b})
			out = append(out, Combo{Q: Or(a, b), Kind: QOr, A: a, B: b})
		}
	}
	return out
}

// Triples lists the depth-3 combinations over the given atoms. Precedence: && binds tighter
// than ||, so A||B&&C = A||(B&&C) and A&&B||C = (A&&B)||C; parentheses override.
func Triples(atoms []*Query) []Combo {
	var out []Combo
	for _, a := range atoms {
		for _, b := range atoms {
			for _, c := range atoms {
				ab, bc := And(a, b), And(b, c)
				oab, obc := Or(a, b), Or(b, c)
				// unparenthesised: structure follows PEG precedence
				out = append(out, Combo{Q: &Query{Kind: QOr, A: a, B: bc}, Kind: QOr, A: a, B: bc}) // a || b && c
				out = append(out, Combo{Q: &Query{Kind: QOr, A: ab, B: c}, Kind: QOr, A: ab, B: c}) // a && b || c
				// parenthesised
				out = append(out, Combo{Q: And(Paren(oab), c), Kind: QAnd, A: oab, B: c}) // (a || b) && c
				out = append(out, Combo{Q: And(a, Paren(obc)), Kind: QAnd, A: a, B: obc}) // a && (b || c)
				out = append(out, Combo{Q: Or(Paren(ab), c), Kind: QOr, A: ab, B: c})     // (a && b) || c
			}
		}
	}
	return out
}
