package gen

import (
	"strconv"
	"strings"
	"unicode/utf8"
)

// Site describes one place where the grammar allows an insignificant spelling choice.
type Site struct {
	Kind string
	N    int // number of variants, variant 0 is canonical
}

// Spelling selects non-canonical variants at given site indices (sites are numbered in
// rendering order; a choice at site i can create or remove sites only after i).
type Spelling map[int]int

// Rendered is the text of a path plus what the oracle needs to know about it.
type Rendered struct {
	Text  string
	Pos   []string // text of each position of the outer chain as runtime errors quote it
	Sites []Site
}

type renderer struct {
	sb    strings.Builder
	sp    Spelling
	sites []Site
}

func (r *renderer) site(kind string, n int) int {
	i := len(r.sites)
	r.sites = append(r.sites, Site{kind, n})
	if r.sp == nil {
		return 0
	}
	v := r.sp[i]
	if v < 0 || v >= n {
		panic("gen: spelling choice out of range at site " + strconv.Itoa(i) + " kind " + kind)
	}
	return v
}

func (r *renderer) sps(kind string) {
	if r.site(kind, 2) == 1 {
		r.sb.WriteByte(' ')
	}
}

// Render renders the outermost path.
func Render(p *Path, sp Spelling) Rendered {
	r := &renderer{sp: sp}
	r.sps("lead")
	pos := r.path(p, true)
	r.sps("trail")
	return Rendered{Text: r.sb.String(), Pos: pos, Sites: r.sites}
}

// RenderQuery renders a filter query alone (canonical unless sp given).
func RenderQuery(q *Query, sp Spelling) string {
	r := &renderer{sp: sp}
	r.query(q)
	return r.sb.String()
}

// DotSafe reports whether a name can be written in dot notation without escapes.
func DotSafe(name string) bool {
	if name == "" || !utf8.ValidString(name) {
		return false
	}
	for _, c := range name {
		if c < 0x20 || c == 0x7f || isSign(c) {
			return false
		}
	}
	return true
}

// DotRepresentable reports whether a name can be written in dot notation with escapes
// (non-empty, no control characters).
func DotRepresentable(name string) bool {
	if name == "" || !utf8.ValidString(name) {
		return false
	}
	for _, c := range name {
		if c < 0x20 || c == 0x7f {
			return false
		}
	}
	return true
}

// signsWithoutHyphenUnderscore <- [ -,./:-@[-^`{-~]
func isSign(c rune) bool {
	switch {
	case c >= ' ' && c <= ',':
		return true
	case c == '.' || c == '/':
		return true
	case c >= ':' && c <= '@':
		return true
	case c >= '[' && c <= '^':
		return true
	case c == '`':
		return true
	case c >= '{' && c <= '~':
		return true
	}
	return false
}

// DotEscape writes a name in dot notation, escaping every sign with a backslash.
func DotEscape(name string) string {
	var sb strings.Builder
	for _, c := range name {
		if isSign(c) {
			sb.WriteByte('\\')
		}
		sb.WriteRune(c)
	}
	return sb.String()
}

// QuoteName writes a name as a bracket-notation quoted string with JSON-style escaping.
func QuoteName(name string, q byte) string {
	var sb strings.Builder
	sb.WriteByte(q)
	for _, c := range name {
		switch {
		case c == rune(q):
			sb.WriteByte('\\')
			sb.WriteByte(q)
		case c == '\\':
			sb.WriteString(`\\`)
		case c < 0x20:
			sb.WriteString(`\u00`)
			sb.WriteByte("0123456789abcdef"[c>>4])
			sb.WriteByte("0123456789abcdef"[c&15])
		default:
			sb.WriteRune(c)
		}
	}
	sb.WriteByte(q)
	return sb.String()
}

// QuoteLiteral writes a filter string literal.
func QuoteLiteral(s string, q byte) string {
	var sb strings.Builder
	sb.WriteByte(q)
	for i := 0; i < len(s); i++ {
		c := s[i]
		if c == q || c == '\\' {
			sb.WriteByte('\\')
		}
		sb.WriteByte(c)
	}
	sb.WriteByte(q)
	return sb.String()
}

func (r *renderer) path(p *Path, outer bool) []string {
	var pos []string
	steps := p.Steps
	omitRoot := false
	if outer && p.Root == '$' && len(steps) > 0 {
		switch steps[0].Kind {
		case KName, KWild, KMulti, KUnion, KFilter:
			if r.site("root", 2) == 1 {
				omitRoot = true
			}
		}
	}
	if !omitRoot {
		r.sb.WriteByte(p.Root)
	}
	for i := range steps {
		pos = append(pos, r.step(&steps[i], i == 0 && omitRoot)...)
	}
	for _, f := range p.Funcs {
		t := "." + f + "()"
		r.sb.WriteString(t)
		pos = append(pos, t)
	}
	return pos
}

// nameForm decides notation for a name: 0 dot, 1 single-quoted bracket, 2 double-quoted bracket.
func (r *renderer) nameForm(s *Step) int {
	if !DotSafe(s.Name) {
		// canonical bracket; dot spelling with escapes is exercised by C16
		if r.site("namequote", 2) == 1 {
			return 2
		}
		return 1
	}
	v := r.site("name", 3)
	if s.Bracket {
		// canonical is single-quoted bracket
		return []int{1, 0, 2}[v]
	}
	return v
}

func (r *renderer) step(s *Step, first bool) []string {
	switch s.Kind {
	case KName:
		form := r.nameForm(s)
		if form == 0 {
			if first {
				r.sb.WriteString(s.Name)
				return []string{s.Name}
			}
			t := "." + s.Name
			r.sb.WriteString(t)
			return []string{t}
		}
		q := byte('\'')
		if form == 2 {
			q = '"'
		}
		return []string{r.bracket(func() { r.sb.WriteString(QuoteName(s.Name, q)) })}
	case KWild:
		v := r.site("wild", 2)
		if s.Bracket {
			v = 1 - v
		}
		if v == 0 {
			if first {
				r.sb.WriteString("*")
				return []string{"*"}
			}
			r.sb.WriteString(".*")
			return []string{".*"}
		}
		return []string{r.bracket(func() { r.sb.WriteString("*") })}
	case KMulti:
		return []string{r.bracket(func() {
			for i, it := range s.Items {
				if i > 0 {
					r.sps("sep<")
					r.sb.WriteByte(',')
					r.sps("sep>")
				}
				if it.Wild {
					r.sb.WriteByte('*')
				} else {
					q := byte('\'')
					if r.site("quote", 2) == 1 {
						q = '"'
					}
					r.sb.WriteString(QuoteName(it.Name, q))
				}
			}
		})}
	case KUnion:
		return []string{r.bracket(func() {
			for i := range s.Subs {
				if i > 0 {
					r.sps("sep<")
					r.sb.WriteByte(',')
					r.sps("sep>")
				}
				r.sub(&s.Subs[i])
			}
		})}
	case KFilter:
		return []string{r.bracket(func() {
			r.sb.WriteString("?(")
			r.sps("filter(")
			r.query(s.Q)
			r.sps("filter)")
			r.sb.WriteByte(')')
		})}
	case KRec:
		r.sb.WriteString("..")
		in := s.Inner
		switch in.Kind {
		case KName:
			form := r.nameForm(in)
			if form == 0 {
				r.sb.WriteString(in.Name)
				return []string{"..", in.Name}
			}
			q := byte('\'')
			if form == 2 {
				q = '"'
			}
			return []string{"..", r.bracket(func() { r.sb.WriteString(QuoteName(in.Name, q)) })}
		case KWild:
			v := r.site("wild", 2)
			if in.Bracket {
				v = 1 - v
			}
			if v == 0 {
				r.sb.WriteString("*")
				return []string{"..", "*"}
			}
			return []string{"..", r.bracket(func() { r.sb.WriteString("*") })}
		default:
			t := r.step(in, false)
			return append([]string{".."}, t...)
		}
	}
	panic("gen: unknown step kind")
}

func (r *renderer) bracket(body func()) string {
	start := r.sb.Len()
	r.sb.WriteByte('[')
	r.sps("[")
	body()
	r.sps("]")
	r.sb.WriteByte(']')
	return r.sb.String()[start:]
}

func (r *renderer) num(n Num) {
	if n.Omitted {
		return
	}
	if n.Raw != "" {
		r.sb.WriteString(n.Raw)
		return
	}
	v := r.site("int", 3)
	neg := n.V < 0
	digits := strconv.FormatInt(n.V, 10)
	if neg {
		digits = digits[1:]
	}
	switch v {
	case 0:
		if neg {
			r.sb.WriteByte('-')
		}
		r.sb.WriteString(digits)
	case 1: // explicit sign / leading zero for negatives
		if neg {
			r.sb.WriteString("-0")
		} else {
			r.sb.WriteByte('+')
		}
		r.sb.WriteString(digits)
	case 2: // leading zeros
		if neg {
			r.sb.WriteByte('-')
		}
		r.sb.WriteString("00")
		r.sb.WriteString(digits)
	}
}

func (r *renderer) sub(s *Sub) {
	switch s.Kind {
	case SIndex:
		r.num(s.N)
	case SStar:
		r.sb.WriteByte('*')
	case SSlice:
		r.num(s.Start)
		r.sps("colon<")
		r.sb.WriteByte(':')
		r.sps("colon>")
		r.num(s.End)
		if s.TwoPart {
			return
		}
		r.sps("colon<")
		r.sb.WriteByte(':')
		r.sps("colon>")
		r.num(s.St)
	}
}

func (r *renderer) operand(o *Operand) {
	if o.P != nil {
		r.path(o.P, false)
		return
	}
	l := o.Lit
	switch l.Kind {
	case LNum:
		if l.Raw != "" {
			r.sb.WriteString(l.Raw)
		} else {
			r.sb.WriteString(strconv.FormatFloat(l.Num, 'g', -1, 64))
		}
	case LStr:
		q := byte('\'')
		if r.site("litquote", 2) == 1 {
			q = '"'
		}
		r.sb.WriteString(QuoteLiteral(l.Str, q))
	case LBool:
		if l.Bool {
			r.sb.WriteString("true")
		} else {
			r.sb.WriteString("false")
		}
	case LNull:
		r.sb.WriteString("null")
	}
}

func (r *renderer) query(q *Query) {
	switch q.Kind {
	case QExists:
		if q.Not {
			r.sb.WriteByte('!')
			r.sps("not")
		}
		r.path(q.P, false)
	case QCmp:
		r.operand(q.L)
		r.sps("op<")
		r.sb.WriteString(q.Op)
		r.sps("op>")
		r.operand(q.R)
	case QRegex:
		r.path(q.P, false)
		r.sps("op<")
		r.sb.WriteString("=~")
		r.sps("op>")
		r.sb.WriteByte('/')
		r.sb.WriteString(strings.ReplaceAll(q.Re, "/", `\/`))
		r.sb.WriteByte('/')
	case QAnd, QOr:
		r.query(q.A)
		r.sps("logic<")
		if q.Kind == QAnd {
			r.sb.WriteString("&&")
		} else {
			r.sb.WriteString("||")
		}
		r.sps("logic>")
		r.query(q.B)
	case QParen:
		r.sb.WriteByte('(')
		r.sps("paren(")
		r.query(q.A)
		r.sps("paren)")
		r.sb.WriteByte(')')
	}
}
