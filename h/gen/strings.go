package gen

import (
	"go/ast"
	"go/parser"
	"go/token"
	"strconv"
	"strings"
)

// Tokens is the token alphabet of the string enumerators (C02, C17).
var Tokens = []string{
	"$", "@", ".", "..", "*", "[", "]", "(", ")", "?(", ",", ":", "'", `"`, "a", "1", "-1", "1e", "9223372036854775808",
	"==", "!=", "<", "<=", ">", ">=", "=~", "/a/", "/(/", "&&", "||", "!", " ", "true", "null", "'a'", `"a"`,
	".f()", ".zz()", `\`, "\u00e9", "\U0001F600", "\xff", "\ufffd", "\t",
	`'\ud834'`, // a quoted name that ends in a lone surrogate escape
	"//",       // the empty regular expression
}

// Contexts wrap a token sequence so that the bounded soup reaches every sub-grammar.
var Contexts = [][2]string{{"", ""}, {"$[", "]"}, {"$[?(", ")]"}}

// SoupUnits: a unit is (context, first token, second token); it stands for all sequences of
// the given total length range that begin with those tokens. Unit 0..len(Contexts)-1 are the
// sequences of length 0 and 1 of each context.
type SoupUnit struct {
	Ctx    int
	Prefix []int // token indices (0, or 2 entries)
}

// SoupUnits lists the units for sequences up to maxLen tokens (maxLen >= 2).
func SoupUnits() []SoupUnit {
	var us []SoupUnit
	for c := range Contexts {
		us = append(us, SoupUnit{Ctx: c})
	}
	for c := range Contexts {
		for a := range Tokens {
			for b := range Tokens {
				us = append(us, SoupUnit{Ctx: c, Prefix: []int{a, b}})
			}
		}
	}
	return us
}

// Each calls f for every string of the unit with at most maxLen tokens.
func (u SoupUnit) Each(maxLen int, f func(s string)) {
	pre, suf := Contexts[u.Ctx][0], Contexts[u.Ctx][1]
	if len(u.Prefix) == 0 {
		f(pre + suf)
		for _, t := range Tokens {
			f(pre + t + suf)
		}
		return
	}
	base := pre + Tokens[u.Prefix[0]] + Tokens[u.Prefix[1]]
	// sequences of more than 4 tokens are built from the first SoupCore tokens only
	var rec func(cur string, n int, core bool)
	rec = func(cur string, n int, core bool) {
		f(cur + suf)
		if n == maxLen {
			return
		}
		for ti, t := range Tokens {
			c := core && ti < SoupCore
			if n+1 > 4 && !c {
				continue
			}
			rec(cur+t, n+1, c)
		}
	}
	rec(base, 2, u.Prefix[0] < SoupCore && u.Prefix[1] < SoupCore)
}

// SoupCore: the number of leading tokens of Tokens that make up the core alphabet (the
// punctuation, operators, one name, the numbers and the literals).
const SoupCore = 32

// Mutants calls f for every one-token mutant of s: at every character position, delete the
// character, insert each token before it, replace it by each token; plus each token appended.
func Mutants(s string, f func(m string)) {
	offs := make([]int, 0, len(s)+1)
	for i := range s {
		offs = append(offs, i)
	}
	offs = append(offs, len(s))
	for k := 0; k+1 < len(offs); k++ {
		a, b := offs[k], offs[k+1]
		f(s[:a] + s[b:])
		for _, t := range Tokens {
			f(s[:a] + t + s[a:])
			f(s[:a] + t + s[b:])
		}
	}
	for _, t := range Tokens {
		f(s + t)
	}
}

// Pumped lists sentences in which one repeatable construct is repeated 2,4,...,60 times
// (capped at maxLen characters).
func Pumped(maxLen int) []string {
	var out []string
	add := func(s string) {
		if len(s) <= maxLen {
			out = append(out, s)
		}
	}
	rep := strings.Repeat
	for k := 2; k <= 60; k += 2 {
		add("$" + rep(".a", k))
		add("$" + rep("[0]", k))
		add("$" + rep("..a", k))
		add("$" + rep(".*", k))
		add("$" + rep("['a','b']", k))
		add("$[" + rep("0,", k) + "0]")
		add("$[" + rep("'a',", k) + "*]")
		add("$[" + rep("1:2,", k) + "*]")
		add("$" + rep("[?(@.a", k) + rep(")]", k))
		add("$" + rep("[?(@", k) + ".a" + rep(")]", k))
		add("$[?(" + rep("(", k) + "@.a" + rep(")", k) + ")]")
		add("$[?(" + rep("(", k) + "@.a==1" + rep(")", k) + ")]")
		add("$[?(" + rep("@.a&&", k) + "@.b)]")
		add("$[?(" + rep("@.a||", k) + "@.b)]")
		add("$[?(" + rep("@.a==1||@.b<2&&", k/2) + "!@.c)]")
		add("$[?(@" + rep(".a", k) + "==$" + rep(".b", k) + ")]")
		add("$" + rep(" ", k) + ".a")
		add(rep(" ", k) + "$.a" + rep(" ", k))
		add("$[" + rep(" ", k) + "0" + rep(" ", k) + "]")
		add("$." + rep("a", k*4))
		add("$['" + rep("\\u0041", k) + "']")
		add("$." + rep(`\.`, k))
		add("$[?(@.a=='" + rep(`\'`, k) + "')]")
		add("$[?(@.a=~/" + rep("(a|b)*", k) + "/)]")
		add("$" + rep(".f()", k))
		add("$.a" + rep(".g()", k))
		add("$[?(@" + rep(".g()", k) + "==1)]")
		add("$[" + rep("-", 1) + rep("9", k) + "]")
		add("$[?(@.a==" + rep("9", k) + ")]")
		add("$[?(@.a==1e" + rep("9", k) + ")]")
		add("$" + rep("[", k) + rep("]", k))
		add("$" + rep("[?(", k))
		add("$[?(" + rep("!", k) + "@.a)]")
		add("$" + rep("é", k) + "[")
		add("$." + rep("\U0001F600", k) + "[")
	}
	return out
}

// SuitePaths extracts every string literal that is the value of a `jsonpath:` field in a Go
// test file (the repository's own suite).
func SuitePaths(file string) ([]string, error) {
	fset := token.NewFileSet()
	f, err := parser.ParseFile(fset, file, nil, 0)
	if err != nil {
		return nil, err
	}
	seen := map[string]bool{}
	var out []string
	ast.Inspect(f, func(n ast.Node) bool {
		kv, ok := n.(*ast.KeyValueExpr)
		if !ok {
			return true
		}
		id, ok := kv.Key.(*ast.Ident)
		if !ok || id.Name != "jsonpath" {
			return true
		}
		lit, ok := kv.Value.(*ast.BasicLit)
		if !ok || lit.Kind != token.STRING {
			return true
		}
		s, err := strconv.Unquote(lit.Value)
		if err == nil && !seen[s] {
			seen[s] = true
			out = append(out, s)
		}
		return true
	})
	return out, nil
}
