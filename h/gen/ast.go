// Package gen holds the path AST, its renderer (with spelling variants) and the
// exhaustive enumerators for documents, paths and strings. Nothing here is random.
package gen

// StepKind enumerates navigation step kinds.
type StepKind int

const (
	KName StepKind = iota
	KMulti
	KWild
	KRec
	KUnion
	KFilter
)

// Path is a JSONPath: a root marker, navigation steps and trailing functions.
type Path struct {
	Root  byte // '$' or '@'
	Steps []Step
	Funcs []string // trailing function names, applied left to right
}

// MultiItem is one item of a multi-name selector: a name or a wildcard.
type MultiItem struct {
	Wild bool
	Name string
}

// SubKind enumerates union subscripts.
type SubKind int

const (
	SIndex SubKind = iota
	SSlice
	SStar
)

// Num is an integer as written in a subscript.
type Num struct {
	Omitted bool
	V       int64
	Raw     string // if non-empty, written verbatim instead of V (for out-of-range / odd spellings)
}

// Sub is one subscript of a union.
type Sub struct {
	Kind           SubKind
	N              Num  // SIndex
	Start, End, St Num  // SSlice
	TwoPart        bool // SSlice written as s:e (no second colon)
}

// Step is one navigation step.
type Step struct {
	Kind    StepKind
	Name    string      // KName
	Bracket bool        // KName / KWild: canonical spelling is bracket notation
	Items   []MultiItem // KMulti
	Inner   *Step       // KRec
	Subs    []Sub       // KUnion
	Q       *Query      // KFilter
}

// QKind enumerates filter query node kinds.
type QKind int

const (
	QExists QKind = iota
	QCmp
	QRegex
	QAnd
	QOr
	QParen
)

// LitKind enumerates literal kinds.
type LitKind int

const (
	LNum LitKind = iota
	LStr
	LBool
	LNull
)

// Literal is a literal operand.
type Literal struct {
	Kind LitKind
	Num  float64
	Raw  string // spelling of a number (if empty, shortest float format)
	Str  string
	Bool bool
}

// Operand is a comparison operand: a literal or a path.
type Operand struct {
	Lit *Literal
	P   *Path
}

// Query is a filter expression.
type Query struct {
	Kind QKind
	Not  bool   // QExists: !path
	P    *Path  // QExists, QRegex
	Op   string // QCmp
	L, R *Operand
	Re   string // QRegex
	A, B *Query // QAnd, QOr; QParen uses A
}

// Convenience constructors -------------------------------------------------

func Name(k string) Step     { return Step{Kind: KName, Name: k} }
func BName(k string) Step    { return Step{Kind: KName, Name: k, Bracket: true} }
func Wild() Step             { return Step{Kind: KWild} }
func BWild() Step            { return Step{Kind: KWild, Bracket: true} }
func Rec(inner Step) Step    { return Step{Kind: KRec, Inner: &inner} }
func Union(subs ...Sub) Step { return Step{Kind: KUnion, Subs: subs} }
func Filter(q *Query) Step   { return Step{Kind: KFilter, Q: q} }
func Idx(n int64) Sub        { return Sub{Kind: SIndex, N: Num{V: n}} }
func Star() Sub              { return Sub{Kind: SStar} }
func N(v int64) Num          { return Num{V: v} }
func Om() Num                { return Num{Omitted: true} }
func Slice(s, e, t Num) Sub  { return Sub{Kind: SSlice, Start: s, End: e, St: t} }
func Slice2(s, e Num) Sub    { return Sub{Kind: SSlice, Start: s, End: e, St: Om(), TwoPart: true} }
func Multi(items ...string) Step {
	st := Step{Kind: KMulti}
	for _, it := range items {
		if it == "*" {
			st.Items = append(st.Items, MultiItem{Wild: true})
		} else {
			st.Items = append(st.Items, MultiItem{Name: it})
		}
	}
	return st
}

func P(root byte, steps ...Step) *Path { return &Path{Root: root, Steps: steps} }
func (p *Path) F(funcs ...string) *Path {
	q := *p
	q.Funcs = append(append([]string{}, p.Funcs...), funcs...)
	return &q
}

func LitNum(v float64) *Operand { return &Operand{Lit: &Literal{Kind: LNum, Num: v}} }
func LitStr(s string) *Operand  { return &Operand{Lit: &Literal{Kind: LStr, Str: s}} }
func LitBool(b bool) *Operand   { return &Operand{Lit: &Literal{Kind: LBool, Bool: b}} }
func LitNull() *Operand         { return &Operand{Lit: &Literal{Kind: LNull}} }
func OpP(p *Path) *Operand      { return &Operand{P: p} }
func Exists(p *Path) *Query     { return &Query{Kind: QExists, P: p} }
func NotExists(p *Path) *Query  { return &Query{Kind: QExists, P: p, Not: true} }
func Cmp(op string, l, r *Operand) *Query {
	return &Query{Kind: QCmp, Op: op, L: l, R: r}
}
func Regex(p *Path, re string) *Query { return &Query{Kind: QRegex, P: p, Re: re} }
func And(a, b *Query) *Query          { return &Query{Kind: QAnd, A: a, B: b} }
func Or(a, b *Query) *Query           { return &Query{Kind: QOr, A: a, B: b} }
func Paren(a *Query) *Query           { return &Query{Kind: QParen, A: a} }

// SingleValued reports whether the step can select at most one node per input node
// (syntactically): names and unions of exactly one plain index.
func (s *Step) SingleValued() bool {
	switch s.Kind {
	case KName:
		return true
	case KUnion:
		return len(s.Subs) == 1 && s.Subs[0].Kind == SIndex
	}
	return false
}

// SingleValued reports whether the whole navigation part is syntactically single-valued.
func (p *Path) SingleValued() bool {
	for i := range p.Steps {
		if !p.Steps[i].SingleValued() {
			return false
		}
	}
	return true
}

// HasRootOperand reports whether any filter in the path uses a '$'-rooted operand.
func (p *Path) HasRootOperand() bool {
	for i := range p.Steps {
		if stepHasRootOperand(&p.Steps[i]) {
			return true
		}
	}
	return false
}

func stepHasRootOperand(s *Step) bool {
	switch s.Kind {
	case KRec:
		return stepHasRootOperand(s.Inner)
	case KFilter:
		return queryHasRootOperand(s.Q)
	}
	return false
}

func queryHasRootOperand(q *Query) bool {
	switch q.Kind {
	case QExists, QRegex:
		return q.P.Root == '$' || q.P.HasRootOperand()
	case QCmp:
		for _, o := range []*Operand{q.L, q.R} {
			if o.P != nil && (o.P.Root == '$' || o.P.HasRootOperand()) {
				return true
			}
		}
		return false
	case QAnd, QOr:
		return queryHasRootOperand(q.A) || queryHasRootOperand(q.B)
	case QParen:
		return queryHasRootOperand(q.A)
	}
	return false
}

// IsAggregateName reports whether a function name (with optional digit suffix) is one of the
// harness's aggregate functions.
func IsAggregateName(name string) bool {
	for len(name) > 0 && name[len(name)-1] >= '0' && name[len(name)-1] <= '9' {
		name = name[:len(name)-1]
	}
	switch name {
	case "g", "cnt", "eg", "first", "gre", "all":
		return true
	}
	return false
}

// ValueGroup reports whether the path may select several values (the library refuses such
// paths as comparison operands): some step is not single-valued and no aggregate function
// collapses the selection afterwards.
func (p *Path) ValueGroup() bool {
	if p.SingleValued() {
		return false
	}
	for _, f := range p.Funcs {
		if IsAggregateName(f) {
			return false
		}
	}
	return true
}
