// Package run is the coordinator/worker framework: it shards a finite enumeration over
// isolated single-threaded worker processes, survives worker crashes (isolating the
// responsible unit), aggregates counters, writes evidence and replay artefacts and applies
// the known-findings file.
package run

import (
	"bufio"
	"crypto/sha1"
	"encoding/hex"
	"encoding/json"
	"fmt"
	"os"
	"os/exec"
	"path/filepath"
	"runtime"
	"runtime/debug"
	"sort"
	"strconv"
	"strings"
	"sync"
	"sync/atomic"
	"syscall"
	"time"
	"unsafe"
)

// Violation is one property violation found by a worker.
type Violation struct {
	Sig    string                 `json:"sig"`    // construct signature (groups violations of one cause)
	Detail string                 `json:"detail"` // human readable: observed vs expected
	Size   int                    `json:"size"`   // simplicity measure (smaller reported first)
	Case   map[string]interface{} `json:"case"`   // everything needed to replay
}

// Ctx accumulates what a worker measured.
type Ctx struct {
	Evals       int64            `json:"evals"`
	Nontrivial  int64            `json:"nontrivial"`
	States      int64            `json:"states"`
	Transitions int64            `json:"transitions"`
	Traces      int64            `json:"traces"`
	Outcomes    map[string]int64 `json:"outcomes"`
	Extra       map[string]int64 `json:"extra"`
	Samples     []interface{}    `json:"samples"`
	Violations  []Violation      `json:"violations"`
	perSig      map[string]int
	Deadline    time.Time `json:"-"`
	Tier        string    `json:"-"`
	sub         *int64
	// Cut: a unit stopped early because the tier deadline passed (the run is then not exhaustive)
	Cut bool `json:"cut"`
	// where this worker is (recorded into every violation so that a violation that depends on
	// what the process did before can be replayed as a sequence of units)
	curUnit, shard, nshards int
}

// Tick marks the start of the next case inside the current unit, so that a crash of the
// worker process can be attributed to a single case (see SubDescriber).
func (c *Ctx) Tick() {
	if c.sub != nil {
		*c.sub++
	}
}

// SubDescriber is implemented by jobs that can name the n-th case (1-based Tick count) of a unit.
type SubDescriber interface {
	DescribeSub(unit, tick int) map[string]interface{}
}

func newCtx() *Ctx {
	return &Ctx{Outcomes: map[string]int64{}, Extra: map[string]int64{}, perSig: map[string]int{}}
}

// NewReplayCtx returns a context for re-running a unit body inside a Replay function.
func NewReplayCtx() *Ctx { return newCtx() }

// Outcome counts one observed outcome class.
func (c *Ctx) Outcome(k string) { c.Outcomes[k]++ }

// Add adds to a named extra counter.
func (c *Ctx) Add(k string, n int64) { c.Extra[k] += n }

// Sample keeps a few cases for the evidence file.
func (c *Ctx) Sample(s interface{}) {
	if len(c.Samples) < 4 {
		c.Samples = append(c.Samples, s)
	}
}

// Violate records a violation (at most a few per signature per flush).
func (c *Ctx) Violate(v Violation) {
	c.Extra["violations_seen"]++
	if c.perSig[v.Sig] >= 3 {
		return
	}
	c.perSig[v.Sig]++
	if v.Case != nil && c.nshards > 0 {
		v.Case["_unit"], v.Case["_shard"], v.Case["_nshards"], v.Case["_tier"] = c.curUnit, c.shard, c.nshards, c.Tier
	}
	c.Violations = append(c.Violations, v)
}

// Expired reports whether the tier deadline has passed.
func (c *Ctx) Expired() bool { return !c.Deadline.IsZero() && time.Now().After(c.Deadline) }

// Job is a finite enumeration split into units.
type Job interface {
	NumUnits() int
	RunUnit(i int, c *Ctx)
	Describe(i int) map[string]interface{}
}

// Check describes one property check.
type Check struct {
	ID          string
	Level       string // evidence level
	Rule        string
	Assumptions []string
	Bounds      map[string]string // tier -> human description of the bound
	New         func(tier string) Job
	Replay      func(cs map[string]interface{}) (reproduced bool, detail string)
	// Finish lets a check add keys to the coverage object (after aggregation).
	Finish func(tier string, total *Ctx, cov map[string]interface{})
	// Extra runs in the coordinator after the workers (e.g. a separately built pass); the
	// violations it returns are reported like the workers' and cov may be extended.
	Extra func(tier string, cov map[string]interface{}) []Violation
	// Workers overrides the number of worker processes (0 = NumCPU).
	Workers int
	// ReplayInProcess: replays are run by the coordinator binary itself.
}

var registry = map[string]*Check{}

// Commands are extra sub-commands of the vcheck binary registered by checks (helper subprocesses).
var Commands = map[string]func(args []string) int{}

// Register adds a check.
func Register(c *Check) { registry[c.ID] = c }

// Lookup finds a check.
func Lookup(id string) *Check { return registry[id] }

// IDs lists registered ids.
func IDs() []string {
	var ids []string
	for k := range registry {
		ids = append(ids, k)
	}
	sort.Strings(ids)
	return ids
}

// VerifDir is /verif (overridable for tests).
func VerifDir() string {
	if d := os.Getenv("VERIF_DIR"); d != "" {
		return d
	}
	return "/verif"
}

// OutDir is where evidence and replay files go (VERIF_OUT overrides it for runs against
// deliberately broken trees, so that the committed evidence is not overwritten).
func OutDir() string {
	if d := os.Getenv("VERIF_OUT"); d != "" {
		return d
	}
	return VerifDir()
}

// ---------------------------------------------------------------------------
// worker side

type flushMsg struct {
	Ctx      *Ctx `json:"ctx"`
	Next     int  `json:"next"` // first unit not covered by this or earlier flushes
	Done     bool `json:"done"`
	Deadline bool `json:"deadline"`
}

// WorkerMain runs units of a check in this process. args: id tier shard nshards from deadlineUnix progressFile skipCSV
func WorkerMain(args []string) int {
	runtime.GOMAXPROCS(1)
	debug.SetMaxStack(64 << 20)
	debug.SetGCPercent(400)
	// soft memory limit: near it the collector runs more often instead of letting the heap grow
	// (16 workers share the machine; the sandbox has no memory limit of its own)
	debug.SetMemoryLimit(2 << 30)
	id, tier := args[0], args[1]
	shard, _ := strconv.Atoi(args[2])
	nshards, _ := strconv.Atoi(args[3])
	from, _ := strconv.Atoi(args[4])
	pinSelf(shard)
	dl, _ := strconv.ParseInt(args[5], 10, 64)
	progFile := args[6]
	skip := map[int]bool{}
	if len(args) > 7 && args[7] != "" {
		for _, s := range strings.Split(args[7], ",") {
			n, _ := strconv.Atoi(s)
			skip[n] = true
		}
	}
	ck := Lookup(id)
	if ck == nil {
		fmt.Fprintln(os.Stderr, "unknown check", id)
		return 2
	}
	progArr := mapProgress(progFile)
	prog := &progArr[0]
	job := ck.New(tier)
	n := job.NumUnits()
	out := bufio.NewWriterSize(os.Stdout, 1<<16)
	enc := json.NewEncoder(out)
	ctx := newCtx()
	ctx.Tier = tier
	if dl > 0 {
		ctx.Deadline = time.Unix(dl, 0)
	}
	ctx.sub = &progArr[1]
	ctx.shard, ctx.nshards = shard, nshards
	lastFlush := time.Now()
	flush := func(next int, done, deadline bool) {
		enc.Encode(flushMsg{Ctx: ctx, Next: next, Done: done, Deadline: deadline || ctx.Cut})
		out.Flush()
		dlKeep, tierKeep := ctx.Deadline, ctx.Tier
		ctx = newCtx()
		ctx.Deadline, ctx.Tier = dlKeep, tierKeep
		ctx.sub = &progArr[1]
		ctx.shard, ctx.nshards = shard, nshards
		lastFlush = time.Now()
	}
	start := from
	// first unit of this shard >= from
	for start%nshards != shard {
		start++
	}
	for i := start; i < n; i += nshards {
		if skip[i] {
			continue
		}
		if ctx.Expired() {
			flush(i, true, true)
			return 0
		}
		progArr[1] = 0
		atomic.StoreInt64(prog, int64(i))
		ctx.curUnit = i
		job.RunUnit(i, ctx)
		if time.Since(lastFlush) > 700*time.Millisecond {
			atomic.StoreInt64(prog, -1)
			flush(i+nshards, false, false)
		}
	}
	atomic.StoreInt64(prog, -1)
	flush(n, true, false)
	return 0
}

func mapProgress(file string) *[2]int64 {
	f, err := os.OpenFile(file, os.O_RDWR, 0)
	if err != nil {
		panic(err)
	}
	defer f.Close()
	b, err := syscall.Mmap(int(f.Fd()), 0, 16, syscall.PROT_READ|syscall.PROT_WRITE, syscall.MAP_SHARED)
	if err != nil {
		panic(err)
	}
	return (*[2]int64)(unsafe.Pointer(&b[0]))
}

// ---------------------------------------------------------------------------
// coordinator side

type totals struct {
	mu       sync.Mutex
	ctx      *Ctx
	crashes  []map[string]interface{}
	deadline bool
	infra    []string
	// per signature: the few simplest violations seen (more than one, so that if the simplest
	// does not reproduce from its replay file the next one is tried)
	bestPerSig map[string][]Violation
}

func (t *totals) merge(c *Ctx) {
	t.mu.Lock()
	defer t.mu.Unlock()
	t.ctx.Evals += c.Evals
	t.ctx.Nontrivial += c.Nontrivial
	t.ctx.States += c.States
	t.ctx.Transitions += c.Transitions
	t.ctx.Traces += c.Traces
	for k, v := range c.Outcomes {
		t.ctx.Outcomes[k] += v
	}
	for k, v := range c.Extra {
		t.ctx.Extra[k] += v
	}
	for _, s := range c.Samples {
		if len(t.ctx.Samples) < 6 {
			t.ctx.Samples = append(t.ctx.Samples, s)
		}
	}
	for _, v := range c.Violations {
		l := append(t.bestPerSig[v.Sig], v)
		sort.SliceStable(l, func(i, j int) bool {
			if l[i].Size != l[j].Size {
				return l[i].Size < l[j].Size
			}
			return l[i].Detail < l[j].Detail
		})
		if len(l) > 4 {
			l = l[:4]
		}
		t.bestPerSig[v.Sig] = l
	}
}

// Finding is an entry of known_findings.json.
type Finding struct {
	Kind     string `json:"kind"` // "finding" or "fixed"
	Property string `json:"property"`
	Sig      string `json:"sig,omitempty"`    // exact violation signature this finding covers
	What     string `json:"what"`             // what fails
	Commit   string `json:"commit,omitempty"` // for fixed entries
}

func loadFindings() []Finding {
	b, err := os.ReadFile(filepath.Join(VerifDir(), "known_findings.json"))
	if err != nil {
		return nil
	}
	var f struct {
		Entries []Finding `json:"entries"`
	}
	if json.Unmarshal(b, &f) != nil {
		return nil
	}
	return f.Entries
}

// Main is the coordinator entry point for `vcheck <id> <tier>`.
func Main(id, tier string) int {
	ck := Lookup(id)
	if ck == nil {
		fmt.Fprintln(os.Stderr, "unknown check", id)
		return 2
	}
	if t := os.Getenv("VERIF_TIER"); t == "quick" || t == "thorough" {
		tier = t
	}
	seed, _ := strconv.Atoi(os.Getenv("VERIF_SEED"))
	startT := time.Now()
	budget := 150 * time.Second
	if tier == "thorough" {
		budget = 25 * time.Minute
	}
	if s := os.Getenv("VERIF_BUDGET_S"); s != "" {
		if n, err := strconv.Atoi(s); err == nil {
			budget = time.Duration(n) * time.Second
		}
	}
	deadline := startT.Add(budget)

	job := ck.New(tier)
	n := job.NumUnits()
	nw := ck.Workers
	if nw == 0 {
		nw = runtime.NumCPU()
	}
	if nw > n {
		nw = n
	}
	if nw < 1 {
		nw = 1
	}
	tot := &totals{ctx: newCtx(), bestPerSig: map[string][]Violation{}}
	tmp, err := os.MkdirTemp("", "vcheck-"+id+"-")
	if err != nil {
		fmt.Fprintln(os.Stderr, err)
		return 2
	}
	defer os.RemoveAll(tmp)

	var wg sync.WaitGroup
	for w := 0; w < nw; w++ {
		wg.Add(1)
		// the seed only rotates which shard index a worker slot takes
		shard := (w + seed) % nw
		if shard < 0 {
			shard += nw
		}
		go func(shard int) {
			defer wg.Done()
			superviseShard(ck, job, tier, shard, nw, deadline, tmp, tot)
		}(shard)
	}
	wg.Wait()
	extraCov := map[string]interface{}{}
	if ck.Extra != nil {
		for _, v := range ck.Extra(tier, extraCov) {
			v.Case["noreplay"] = true
			tot.merge(&Ctx{Violations: []Violation{v}})
		}
	}

	return finish(ck, tier, seed, n, nw, startT, tot, extraCov)
}

const maxCrashesPerShard = 12

var describeMu sync.Mutex

func superviseShard(ck *Check, job Job, tier string, shard, nshards int, deadline time.Time, tmp string, tot *totals) {
	from := 0
	var skip []string
	crashes := 0
	progFile := filepath.Join(tmp, fmt.Sprintf("prog-%d", shard))
	for {
		os.WriteFile(progFile, make([]byte, 16), 0600)
		progArr := mapProgress(progFile)
		prog := &progArr[0]
		atomic.StoreInt64(prog, -1)
		cmd := exec.Command(os.Args[0], "-worker", ck.ID, tier, strconv.Itoa(shard), strconv.Itoa(nshards),
			strconv.Itoa(from), strconv.FormatInt(deadline.Unix(), 10), progFile, strings.Join(skip, ","))
		cmd.Env = append(os.Environ(), "GOMAXPROCS=1", "GOTRACEBACK=none", "VERIF_RUNDIR="+tmp)
		stdout, _ := cmd.StdoutPipe()
		var stderr strings.Builder
		cmd.Stderr = &limitedWriter{w: &stderr, n: 4000}
		if err := cmd.Start(); err != nil {
			tot.mu.Lock()
			tot.infra = append(tot.infra, "cannot start worker: "+err.Error())
			tot.mu.Unlock()
			return
		}
		// watchdog: kill if one unit takes longer than 60 s
		stopWatch := make(chan struct{})
		var hung int32
		go func() {
			last, lastSub, lastChange := int64(-2), int64(-1), time.Now()
			firstChange, cpuAtChange, samples, runnable := lastChange, 0.0, 0, 0
			tk := time.NewTicker(500 * time.Millisecond)
			defer tk.Stop()
			for {
				select {
				case <-stopWatch:
					return
				case <-tk.C:
					cur, sub := atomic.LoadInt64(prog), atomic.LoadInt64(&progArr[1])
					if cur != last || cur < 0 || sub != lastSub {
						last, lastSub, lastChange = cur, sub, time.Now()
						firstChange, cpuAtChange, samples, runnable = lastChange, procCPUSeconds(cmd.Process.Pid), 0, 0
					} else {
						samples++
						if procRunnable(cmd.Process.Pid) {
							runnable++
						}
						if time.Since(lastChange) > 60*time.Second {
							// no progress for 60 s of wall time. A worker that was runnable most of the time
							// but got little CPU is being starved by other load, not hanging: give it more
							// wall time (up to 10 minutes in all). A worker that burnt the CPU time, or that
							// sat blocked, is reported.
							cpu := procCPUSeconds(cmd.Process.Pid) - cpuAtChange
							starved := cpu >= 0 && cpu < 30 && runnable*2 > samples
							if starved && time.Since(firstChange) < 10*time.Minute {
								lastChange, samples, runnable = time.Now(), 0, 0
								cpuAtChange = procCPUSeconds(cmd.Process.Pid)
								continue
							}
							atomic.StoreInt32(&hung, 1)
							cmd.Process.Kill()
							return
						}
					}
				}
			}
		}()
		done := false
		sc := bufio.NewScanner(stdout)
		sc.Buffer(make([]byte, 1<<20), 1<<28)
		for sc.Scan() {
			var m flushMsg
			dec := json.NewDecoder(strings.NewReader(sc.Text()))
			dec.UseNumber() // keep 64-bit integers inside violation cases exact
			if err := dec.Decode(&m); err != nil {
				continue
			}
			tot.merge(m.Ctx)
			from = m.Next
			if m.Deadline {
				tot.mu.Lock()
				tot.deadline = true
				tot.mu.Unlock()
			}
			if m.Done {
				done = true
			}
		}
		err := cmd.Wait()
		close(stopWatch)
		if done && err == nil {
			return
		}
		// the worker died: the unit in flight is responsible
		cur := int(atomic.LoadInt64(prog))
		crashes++
		if cur < 0 {
			tot.mu.Lock()
			tot.infra = append(tot.infra, fmt.Sprintf("worker for shard %d died outside a unit: %v: %s", shard, err, stderr.String()))
			tot.mu.Unlock()
			return
		}
		// SIGKILL that did not come from the watchdog came from outside (the kernel's out-of-memory
		// killer, an operator): that says nothing about the library. The unit is skipped, the run is
		// reported as not exhaustive, and no violation is raised.
		if ee, ok := err.(*exec.ExitError); ok && atomic.LoadInt32(&hung) == 0 {
			if ws, ok := ee.Sys().(syscall.WaitStatus); ok && ws.Signaled() && ws.Signal() == syscall.SIGKILL {
				tot.mu.Lock()
				tot.infra = append(tot.infra, fmt.Sprintf("worker for shard %d was killed from outside (SIGKILL, e.g. the kernel's out-of-memory killer) in unit %d; the unit is skipped", shard, cur))
				tot.mu.Unlock()
				skip = append(skip, strconv.Itoa(cur))
				if crashes >= maxCrashesPerShard {
					return
				}
				continue
			}
		}
		kind := "process crash"
		if atomic.LoadInt32(&hung) == 1 {
			kind = "no return within 60 s (not starved: the worker either used the CPU time or sat blocked)"
		}
		describeMu.Lock() // the job object is shared by the supervisor goroutines
		cs := job.Describe(cur)
		if sd, ok := job.(SubDescriber); ok {
			if tick := int(atomic.LoadInt64(&progArr[1])); tick > 0 {
				if d := sd.DescribeSub(cur, tick); d != nil {
					cs = d
				}
			}
		}
		describeMu.Unlock()
		first := firstLine(stderr.String())
		what := ""
		if pth, ok := cs["path"].(string); ok {
			what = fmt.Sprintf(" while processing %q", pth)
		} else if pq, ok := cs["path_quoted"].(string); ok {
			what = " while processing " + pq
		}
		v := Violation{
			Sig:    "crash:" + sigOf(cs),
			Detail: fmt.Sprintf("%s in an isolated worker%s (%v): %s", kind, what, err, first),
			Size:   0,
			Case:   cs,
		}
		cs["crash"] = true
		tot.merge(&Ctx{Violations: []Violation{v}, Extra: map[string]int64{"worker_crashes": 1}})
		skip = append(skip, strconv.Itoa(cur))
		if crashes >= maxCrashesPerShard {
			tot.mu.Lock()
			tot.infra = append(tot.infra, fmt.Sprintf("shard %d abandoned after %d worker crashes", shard, crashes))
			tot.deadline = true
			tot.mu.Unlock()
			return
		}
	}
}

// procCPUSeconds returns the CPU time (user+system, all threads) a process has used, or -1.
func procCPUSeconds(pid int) float64 {
	b, err := os.ReadFile(fmt.Sprintf("/proc/%d/stat", pid))
	if err != nil {
		return -1
	}
	// fields after the parenthesised command name: state is field 3, utime 14, stime 15
	t := string(b)
	if i := strings.LastIndexByte(t, ')'); i >= 0 {
		f := strings.Fields(t[i+1:])
		if len(f) > 13 {
			u, _ := strconv.ParseFloat(f[11], 64)
			sy, _ := strconv.ParseFloat(f[12], 64)
			return (u + sy) / 100 // USER_HZ is 100 on Linux
		}
	}
	return -1
}

// procRunnable reports whether some thread of the process is running or runnable right now.
func procRunnable(pid int) bool {
	ents, err := os.ReadDir(fmt.Sprintf("/proc/%d/task", pid))
	if err != nil {
		return false
	}
	for _, e := range ents {
		b, err := os.ReadFile(fmt.Sprintf("/proc/%d/task/%s/stat", pid, e.Name()))
		if err != nil {
			continue
		}
		t := string(b)
		if i := strings.LastIndexByte(t, ')'); i >= 0 && i+2 < len(t) && t[i+2] == 'R' {
			return true
		}
	}
	return false
}

func sigOf(cs map[string]interface{}) string {
	if s, ok := cs["sig"].(string); ok {
		return s
	}
	if s, ok := cs["path"].(string); ok {
		return s
	}
	b, _ := json.Marshal(cs)
	return string(b)
}

func firstLine(s string) string {
	s = strings.TrimSpace(s)
	if i := strings.IndexByte(s, '\n'); i >= 0 {
		s = s[:i]
	}
	if len(s) > 200 {
		s = s[:200]
	}
	return s
}

type limitedWriter struct {
	w *strings.Builder
	n int
}

func (l *limitedWriter) Write(p []byte) (int, error) {
	if l.n > 0 {
		k := len(p)
		if k > l.n {
			k = l.n
		}
		l.w.Write(p[:k])
		l.n -= k
	}
	return len(p), nil
}

func finish(ck *Check, tier string, seed, nUnits, nWorkers int, startT time.Time, tot *totals, extraCov map[string]interface{}) int {
	vdir := OutDir()
	os.MkdirAll(filepath.Join(vdir, "evidence"), 0755)
	os.MkdirAll(filepath.Join(vdir, "replays"), 0755)
	findings := loadFindings()

	// order signatures: simplest first
	var sigs []string
	for sig := range tot.bestPerSig {
		sigs = append(sigs, sig)
	}
	sort.Slice(sigs, func(i, j int) bool {
		a, b := tot.bestPerSig[sigs[i]][0], tot.bestPerSig[sigs[j]][0]
		if a.Size != b.Size {
			return a.Size < b.Size
		}
		return a.Sig < b.Sig
	})
	vs := sigs

	exit := 0
	reported, known, unconfirmed := 0, 0, 0
	seqTried := 0 // sequence replays re-run a whole shard: a few are enough
	var lines []string
	for _, sig := range sigs {
		cands := tot.bestPerSig[sig]
		// known finding?
		isKnown := false
		for _, f := range findings {
			if f.Kind == "finding" && f.Property == ck.ID && f.Sig != "" && f.Sig == sig {
				lines = append(lines, fmt.Sprintf("KNOWN-FINDING: property=%s %s [sig=%s]", ck.ID, f.What, sig))
				isKnown = true
				known++
				break
			}
		}
		if isKnown {
			continue
		}
		if reported+unconfirmed >= 12 {
			continue
		}
		confirmedOne := false
		var lastFile, lastDetail string
		for _, v := range cands {
			v.Case["property"] = ck.ID
			v.Case["sig"] = v.Sig
			v.Case["detail"] = v.Detail
			b, _ := json.MarshalIndent(v.Case, "", " ")
			h := sha1.Sum(b)
			file := filepath.Join(vdir, "replays", ck.ID+"-"+hex.EncodeToString(h[:6])+".json")
			os.WriteFile(file, b, 0644)
			lastFile, lastDetail = file, v.Detail
			// confirm through the replay path (fresh process, five times) unless it is a crash
			_, noReplay := v.Case["noreplay"]
			ok := true
			if _, crash := v.Case["crash"]; !crash && !noReplay && ck.Replay != nil {
				for k := 0; k < 5; k++ {
					out, _ := exec.Command(os.Args[0], "-replay1", file).CombinedOutput()
					if !strings.HasPrefix(string(out), "REPRODUCED") {
						ok = false
						break
					}
				}
			}
			seq := false
			if !ok {
				// the case alone does not reproduce in a fresh process: it may depend on what the
				// worker did before it. Re-run the worker's units up to that unit, twice, in fresh
				// processes; if the same signature shows up both times, that sequence is the replay.
				if _, has := v.Case["_unit"]; has && seqTried < 2 {
					seqTried++
					v.Case["sequence_replay"] = true
					b, _ = json.MarshalIndent(v.Case, "", " ")
					os.WriteFile(file, b, 0644)
					ok = true
					for k := 0; k < 2; k++ {
						out, _ := exec.Command(os.Args[0], "-replay1", file).CombinedOutput()
						if !strings.HasPrefix(string(out), "REPRODUCED") {
							ok = false
							break
						}
					}
					seq = ok
				}
			}
			if ok {
				confirmedOne = true
				reported++
				exit = 1
				lines = append(lines, fmt.Sprintf("VIOLATION property=%s replay=%s", ck.ID, file))
				if seq {
					lines = append(lines, "  (depends on the calls made before it in the same process: the replay re-runs the worker's units up to this one) "+v.Detail)
				} else {
					lines = append(lines, "  "+v.Detail)
				}
				break
			}
		}
		if !confirmedOne {
			unconfirmed++
			lines = append(lines, fmt.Sprintf("INTERNAL: property=%s violation did not reproduce from its replay file %s (machinery error, not reported): %s", ck.ID, lastFile, lastDetail))
		}
	}

	exhaustive := !tot.deadline && len(tot.infra) == 0
	cov := map[string]interface{}{
		"evaluations":            tot.ctx.Evals,
		"distinct_nontrivial":    tot.ctx.Nontrivial,
		"rule":                   ck.Rule,
		"samples":                tot.ctx.Samples,
		"exhaustive":             exhaustive,
		"units":                  nUnits,
		"workers":                nWorkers,
		"distinct_outcomes":      len(tot.ctx.Outcomes),
		"outcome_histogram":      tot.ctx.Outcomes,
		"bound":                  ck.Bounds[tier],
		"violation_signatures":   len(vs),
		"known_findings_matched": known,
		"unconfirmed_violations": unconfirmed,
	}
	for k, v := range tot.ctx.Extra {
		cov[k] = v
	}
	for k, v := range extraCov {
		cov[k] = v
	}
	if ck.Level == "model_checking" {
		cov["states"] = tot.ctx.States
		cov["transitions"] = tot.ctx.Transitions
		cov["traces_validated_against_impl"] = tot.ctx.Traces
	}
	if tot.deadline {
		cov["cap_hit"] = "tier deadline or crash cap reached; enumeration is simplest-first, the completed prefix is covered"
	}
	if len(tot.infra) > 0 {
		cov["infrastructure_notes"] = tot.infra
	}
	if len(cov["samples"].([]interface{})) == 0 {
		cov["samples"] = []interface{}{"(no sample recorded)"}
	}
	if ck.Finish != nil {
		ck.Finish(tier, tot.ctx, cov)
	}
	ev := map[string]interface{}{
		"property_id": ck.ID,
		"tier":        tier,
		"seed":        seed,
		"level":       ck.Level,
		"coverage":    cov,
		"assumptions": ck.Assumptions,
		"wall_s":      time.Since(startT).Seconds(),
		"violations":  reported,
	}
	b, _ := json.MarshalIndent(ev, "", " ")
	os.WriteFile(filepath.Join(vdir, "evidence", ck.ID+".json"), append(b, '\n'), 0644)

	for _, l := range lines {
		fmt.Println(l)
	}
	fmt.Printf("%s %s: units=%d evaluations=%d nontrivial=%d outcomes=%d violations=%d known=%d exhaustive=%v wall=%.1fs\n",
		ck.ID, tier, nUnits, tot.ctx.Evals, tot.ctx.Nontrivial, len(tot.ctx.Outcomes), reported, known, exhaustive, time.Since(startT).Seconds())
	for _, s := range tot.infra {
		fmt.Println("NOTE:", s)
	}
	if len(tot.infra) > 0 && exit == 0 && tot.ctx.Evals == 0 {
		return 2
	}
	return exit
}

// ReplayMain re-executes a replay file n times.
func ReplayMain(file string, times int) int {
	b, err := os.ReadFile(file)
	if err != nil {
		fmt.Fprintln(os.Stderr, err)
		return 2
	}
	var cs map[string]interface{}
	dec := json.NewDecoder(strings.NewReader(string(b)))
	dec.UseNumber() // keep 64-bit integers of embedded ASTs exact
	if err := dec.Decode(&cs); err != nil {
		fmt.Fprintln(os.Stderr, err)
		return 2
	}
	id, _ := cs["property"].(string)
	ck := Lookup(id)
	if ck == nil || ck.Replay == nil {
		fmt.Fprintln(os.Stderr, "no replay handler for", id)
		return 2
	}
	if cs["sequence_replay"] == true {
		return replaySequence(ck, cs, times)
	}
	all := true
	for k := 0; k < times; k++ {
		ok, detail := ck.Replay(cs)
		if ok {
			fmt.Printf("REPRODUCED property=%s: %s\n", id, detail)
		} else {
			fmt.Printf("NOT-REPRODUCED property=%s: %s\n", id, detail)
			all = false
		}
	}
	if all {
		return 1
	}
	return 0
}

// replaySequence re-runs, in this fresh process, the units a worker had executed up to the
// unit in which the violation was seen, and reports whether a violation with the same
// signature occurs again.
func replaySequence(ck *Check, cs map[string]interface{}, times int) int {
	geti := func(k string) int {
		var n int
		fmt.Sscan(fmt.Sprint(cs[k]), &n)
		return n
	}
	unit, shard, nshards := geti("_unit"), geti("_shard"), geti("_nshards")
	tier, _ := cs["_tier"].(string)
	sig, _ := cs["sig"].(string)
	if nshards <= 0 {
		fmt.Println("NOT-REPRODUCED: no unit sequence recorded")
		return 0
	}
	runtime.GOMAXPROCS(1)
	debug.SetMaxStack(64 << 20)
	job := ck.New(tier)
	ctx := newCtx()
	ctx.Tier = tier
	found := ""
	for i := shard; i <= unit && i < job.NumUnits(); i += nshards {
		ctx.curUnit = i
		job.RunUnit(i, ctx)
		ctx.perSig = map[string]int{} // keep recording
		for _, v := range ctx.Violations {
			if v.Sig == sig {
				found = v.Detail
			}
		}
		ctx.Violations = nil
		if found != "" {
			break
		}
	}
	if found != "" {
		fmt.Printf("REPRODUCED property=%s (after re-running units %d,%d.. up to %d of the worker): %s\n", ck.ID, shard, shard+nshards, unit, found)
		return 1
	}
	fmt.Printf("NOT-REPRODUCED property=%s: re-running the worker's units up to %d did not show signature %q\n", ck.ID, unit, sig)
	return 0
}
