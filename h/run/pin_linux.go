package run

import (
	"os"
	"strconv"
	"syscall"
	"unsafe"
)

// pinSelf binds every thread of this (single-goroutine) worker process to one CPU of the
// allowed set, chosen by shard number. Reason: in sandboxes whose cpuset has
// sched_load_balance=0 the kernel never migrates a CPU-bound task, so workers forked while the
// machine is busy can end up sharing one core for their whole life. Threads created later
// inherit the mask. Failures are ignored (the default placement is then kept).
func pinSelf(shard int) {
	if os.Getenv("VERIF_NOPIN") != "" {
		return
	}
	var mask [128]byte // 1024 CPUs
	n, _, e := syscall.RawSyscall(syscall.SYS_SCHED_GETAFFINITY, 0, uintptr(len(mask)), uintptr(unsafe.Pointer(&mask[0])))
	if e != 0 || n == 0 {
		return
	}
	var cpus []int
	for i := 0; i < int(n)*8; i++ {
		if mask[i/8]&(1<<(uint(i)%8)) != 0 {
			cpus = append(cpus, i)
		}
	}
	if len(cpus) < 2 {
		return
	}
	cpu := cpus[shard%len(cpus)]
	var one [128]byte
	one[cpu/8] = 1 << (uint(cpu) % 8)
	ents, err := os.ReadDir("/proc/self/task")
	if err != nil {
		return
	}
	for _, en := range ents {
		tid, err := strconv.Atoi(en.Name())
		if err != nil {
			continue
		}
		syscall.RawSyscall(syscall.SYS_SCHED_SETAFFINITY, uintptr(tid), uintptr(len(one)), uintptr(unsafe.Pointer(&one[0])))
	}
}
