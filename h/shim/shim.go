// Package verifshim replaces "sync" inside the instrumented copy of the package under test
// (see /verif/h/cmd/vinstr). With no hooks installed every type behaves like its sync
// original; with hooks installed the explorer owns locks, pool answers, map iteration order
// and scheduling points. This file is compiled under /repo's go.mod (go 1.15): no generics.
package verifshim

import (
	"reflect"
	"sort"
	"sync"
)

// Hooks are installed by the explorer (single assignment before any thread starts).
type Hooks struct {
	Point   func(site string)
	Lock    func(m *Mutex)
	Unlock  func(m *Mutex)
	PoolGet func(p *Pool) (item interface{}, ok bool)
	PoolPut func(p *Pool, x interface{})
	MapKeys func(keys []string)
}

// H is nil outside explorations.
var H *Hooks

// Names re-exported unchanged, so that any code that compiles with "sync" still compiles.
type (
	WaitGroup = sync.WaitGroup
	Once      = sync.Once
	RWMutex   = sync.RWMutex
	Map       = sync.Map
	Cond      = sync.Cond
	Locker    = sync.Locker
)

// NewCond mirrors sync.NewCond.
func NewCond(l Locker) *Cond { return sync.NewCond(l) }

// Mutex is a controllable sync.Mutex.
type Mutex struct {
	real sync.Mutex
	// Held and Owner are maintained by the explorer's hooks.
	Held  bool
	Owner int
}

func (m *Mutex) Lock() {
	if h := H; h != nil && h.Lock != nil {
		h.Lock(m)
		return
	}
	m.real.Lock()
}

func (m *Mutex) Unlock() {
	if h := H; h != nil && h.Unlock != nil {
		h.Unlock(m)
		return
	}
	m.real.Unlock()
}

// Pool is a controllable sync.Pool.
type Pool struct {
	New func() interface{}

	real  sync.Pool
	Items []interface{} // explorer-owned free list (most recently put last)
}

func (p *Pool) Get() interface{} {
	if h := H; h != nil && h.PoolGet != nil {
		if x, ok := h.PoolGet(p); ok {
			return x
		}
		if p.New != nil {
			return p.New()
		}
		return nil
	}
	if x := p.real.Get(); x != nil {
		return x
	}
	if p.New != nil {
		return p.New()
	}
	return nil
}

func (p *Pool) Put(x interface{}) {
	if h := H; h != nil && h.PoolPut != nil {
		h.PoolPut(p, x)
		return
	}
	p.real.Put(x)
}

// Point is a scheduling point (inserted at the entry of every named function).
func Point(site string) {
	if h := H; h != nil && h.Point != nil {
		h.Point(site)
	}
}

// Keys returns the keys of a string-keyed map in the iteration order chosen by the explorer
// (ascending when it does not care). Without hooks the order is deliberately the map's own
// (randomised) order, like the range statement it replaces.
func Keys(m interface{}) []string {
	v := reflect.ValueOf(m)
	keys := make([]string, 0, v.Len())
	for _, k := range v.MapKeys() {
		keys = append(keys, k.String())
	}
	if h := H; h != nil && h.MapKeys != nil {
		sort.Strings(keys)
		h.MapKeys(keys)
	}
	return keys
}
