#!/bin/bash
# Run once after a fresh restore (offline): builds the harness and warms the Go build cache.
set -eu
cd "$(dirname "$0")"
export GOFLAGS=-mod=mod GOPROXY=off GOSUMDB=off GOTOOLCHAIN=local CGO_ENABLED=0
mkdir -p bin evidence replays
(cd h && go build -o ../bin/vcheck ./cmd/vcheck)
(cd h && go vet ./gen ./spec ./run >/dev/null 2>&1 || true)
echo "setup ok: $(./bin/vcheck list | tr '\n' ' ')"
