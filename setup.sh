#!/bin/bash
# Run once after a fresh restore (offline): builds the harness and warms the Go build cache
# (plain, instrumented and -race builds).
set -eu
cd "$(dirname "$0")"
export GOFLAGS=-mod=mod GOPROXY=off GOSUMDB=off GOTOOLCHAIN=local CGO_ENABLED=0
mkdir -p bin evidence replays
(cd h && go build -o ../bin/vcheck ./cmd/vcheck)
(cd h && go build -o ../bin/vinstr ./cmd/vinstr)
T=$(mktemp -d "${TMPDIR:-/tmp}/vinstr.XXXXXX")
trap 'rm -rf "$T"' EXIT
./bin/vinstr -src /repo -out "$T" -shim "$PWD/h/shim" >bin/vinstr-report.json
(cd h && go build -tags verif -overlay "$T/overlay.json" -o ../bin/vcheck-i ./cmd/vcheck)
(cd h && CGO_ENABLED=1 go build -race -o ../bin/racepass ./cmd/racepass)
# self-tests of the machinery itself (PEG interpreter vs peg's own rendering, defects replay)
(cd h && go test ./pegi ./defects >../bin/selftest.log 2>&1) || { cat bin/selftest.log; echo "setup: self-test failed"; exit 1; }
echo "setup ok: $(./bin/vcheck-i list | tr '\n' ' ')"
