#!/bin/bash
# Run once after a fresh restore (offline): builds the harness and warms the Go build cache
# (plain, instrumented and -race builds).
set -eu
cd "$(dirname "$0")"
export GOFLAGS=-mod=mod GOPROXY=off GOSUMDB=off GOTOOLCHAIN=local CGO_ENABLED=0
mkdir -p bin evidence replays
(cd h && go build -o ../bin/vcheck ./cmd/vcheck)
(cd h && go build -o ../bin/vinstr ./cmd/vinstr)
T=$(mktemp -d "${TMPDIR:-/tmp}/vinstr.XXXXXX")
trap 'rm -rf "$T"' EXIT
./bin/vinstr -src /repo -out "$T" -shim "$PWD/h/shim" >bin/vinstr-report.json
(cd h && go build -tags verif -overlay "$T/overlay.json" -o ../bin/vcheck-i ./cmd/vcheck)
(cd h && CGO_ENABLED=1 go build -race -o ../bin/racepass ./cmd/racepass)
# self-tests of the machinery itself (PEG interpreter vs peg's own rendering of the rules, reference
# model vs the repository's pinned expectations, replay of the repaired defects); informational:
# they read /repo, so they are reported but do not make setup fail
if (cd h && go test ./pegi ./suite ./defects >../bin/selftest.log 2>&1); then
  echo "self-tests ok"
else
  echo "WARNING: self-tests reported problems (bin/selftest.log):"; tail -5 bin/selftest.log
fi
echo "setup ok: $(./bin/vcheck-i list | tr '\n' ' ')"
